#!/usr/bin/env python
"""Bounded run-time stand-in for property C02 (the operation listing is complete, causal and stable).

Two layers are exercised on REAL objects:

* graph layer: `CircuitGraphBranch.append_pointer(s)_to`, `GraphBranch.update_point_leafs_to_endpoint`,
  `GraphBranch._update_branch_iterator` on every ordered rooted tree with <= N nodes in every insertion order
  (parent sequences p_k in [0, k-1]), three ways of building (single appends, grouped appends, pre-linked
  subtrees), and on chains just below the documented depth limit MAX_GRAPH_DEPTH;
* language layer: build programs (JSON) through `DeclarativeCircuit.add`, then `circuit.operations`.

Oracles (independent of the code under test): the parent sequence itself (model tree); the build program itself
(which operations were added: kind, qubits, duration); the objects returned by `add`; an own breadth-first walk
over the raw `_outgoing_pointers` fields; an own evaluator of the relation equations over the link fields (only
needed to resolve the member a multi-link refers to).  `start_time` / `end_time` of the library are never read.

Reading order w.r.t. the side effect of `circuit.operations` (it hands the sub-circuit's link down to first-level
operations without relation): links are read by the own walk BEFORE the first listing (explicit + implicit links)
and AFTER it (explicit + implicit + handed-down links); the causal clause is evaluated for both sets.

See bounded/README.md for the command line and the output format.
"""
import os
import sys

os.environ.setdefault("MPLBACKEND", "Agg")
os.environ.setdefault("TQDM_DISABLE", "1")

import collections
import contextlib
import hashlib
import itertools
import json
import multiprocessing as mp
import random
import time
import traceback
import warnings

sys.path.insert(0, os.path.dirname(os.path.dirname(os.path.abspath(__file__))))
from bounded import common  # noqa: E402

PROP = "C02"
DOCUMENTED_DEPTH_LIMIT = 5000      # MAX_GRAPH_DEPTH as documented in intrf_graph_structure.py (layers incl. the root layer)
DEEP = 1000                        # witnesses deeper than this get the key suffix ':near-depth-limit'
_DEADLINE = [None]

# global duration settings (exact binary fractions); 'file' = whatever the repository configuration says
GLOBALS = {
    "file": None,
    "A": {"READOUT": 5.0, "MICROWAVE": 3.0, "FLUX": 4.0, "RESET": 7.0},
    "B": {"READOUT": 1.0, "MICROWAVE": 0.5, "FLUX": 0.25, "RESET": 1.5},
}
# which global duration an operation kind uses (from the meaning of the operations, not read from the code)
SQ_GLOBAL = {"Reset": "RESET", "Identity": "MICROWAVE", "Hadamard": "MICROWAVE", "Rx180": "MICROWAVE",
             "Rx90": "MICROWAVE", "Rxm90": "MICROWAVE", "Ry180": "MICROWAVE", "Ry90": "MICROWAVE",
             "Rym90": "MICROWAVE", "Rx180ef": "MICROWAVE", "VirtualPhase": "MICROWAVE", "Rphi90": "MICROWAVE",
             "VirtualPark": "FLUX"}
SQ_FIXED = ["Wait", "SingleQubitOperation", "VirtualVacant", "VirtualEmpty"]
TQ_KINDS = ["CPhase", "VirtualTwoQubitVacant", "TwoQubitOperation", "TwoQubitVirtualPhase"]
ALL_KINDS = list(SQ_GLOBAL) + SQ_FIXED + TQ_KINDS + ["DispersiveMeasure", "Barrier"]
CH = {"ALL": "ALL", "MW": "MICROWAVE", "FL": "FLUX", "RO": "READOUT"}
RELT = {"F": "FOLLOWED_BY", "S": "JOINED_START", "E": "JOINED_END"}


# ------------------------------------------------------------------------------------------------
# Library access
# ------------------------------------------------------------------------------------------------
class _L:
    ready = False


def L():
    if _L.ready:
        return _L
    warnings.simplefilter("ignore")
    from qce_circuit.language.declarative_circuit import DeclarativeCircuit
    from qce_circuit.structure import circuit_operations as co
    from qce_circuit.structure import registry_duration as rd
    from qce_circuit.structure.intrf_circuit_operation import (RelationLink, MultiRelationLink, RelationType, QubitChannel)
    from qce_circuit.structure.registry_repetition import FixedRepetitionStrategy
    from qce_circuit.structure import intrf_circuit_operation_composite as comp
    from qce_circuit.structure.graph_traversal import intrf_graph_structure as gs
    _L.DeclarativeCircuit, _L.co, _L.rd, _L.comp, _L.gs = DeclarativeCircuit, co, rd, comp, gs
    _L.RelationLink, _L.MultiRelationLink, _L.RelationType, _L.QubitChannel = RelationLink, MultiRelationLink, RelationType, QubitChannel
    _L.FixedRepetitionStrategy = FixedRepetitionStrategy
    warnings.simplefilter("ignore")   # again: the library installs its own filters at import time
    _L.ready = True
    return _L


@contextlib.contextmanager
def global_setting(gname):
    lib = L()
    if GLOBALS[gname] is None:
        yield
        return
    tab = {getattr(lib.rd.GlobalRegistryKey, k): v for k, v in GLOBALS[gname].items()}
    with lib.rd.temporary_override_get_registry_at(tab):
        yield


# ------------------------------------------------------------------------------------------------
# Statistics / failures
# ------------------------------------------------------------------------------------------------
CLAUSES = ["add-returns", "graph-holds-added", "complete", "content", "in-place", "causal", "causal-declared", "stable",
           "listing-order", "graph-pointers", "graph-layers", "graph-leaf-cache", "graph-wiring", "graph-observers",
           "post-modifiers", "steps-listing"]


class Stats:
    def __init__(self):
        self.n = {c: 0 for c in CLAUSES}
        self.inputs = collections.Counter()     # inputs per family
        self.failures = {}
        self.skipped = {}
        self.hashes = set()          # random / hand-written programs, de-duplicated by hash
        self.distinct = 0            # inputs of duplicate-free enumerations (trees, exhaustive programs, chains)
        self.samples = []
        self.probe = collections.Counter()
        self.notes = {}
        self.observations = {}       # deviations outside the quantifier of C02 (after modifiers, timing dependent): reported, not failures

    def fail(self, key, clause, function, witness, observed, required):
        key = f"{PROP}:{key}"
        size = len(json.dumps(witness, default=str))
        old = self.failures.get(key)
        if old is None or size < old["_size"]:
            self.failures[key] = {"key": key, "clause": clause, "function": function, "witness": witness,
                                  "observed": observed, "required": required, "replay_args": dict(witness, key=key),
                                  "_size": size}

    def skip(self, reason):
        self.skipped[reason] = self.skipped.get(reason, 0) + 1

    def merge(self, o):
        for c in CLAUSES:
            self.n[c] += o.n[c]
        self.inputs.update(o.inputs)
        for k, f in o.failures.items():
            old = self.failures.get(k)
            if old is None or (f["_size"], json.dumps(f["witness"], sort_keys=True, default=str)) < \
                    (old["_size"], json.dumps(old["witness"], sort_keys=True, default=str)):
                self.failures[k] = f
        for k, v in o.skipped.items():
            self.skipped[k] = self.skipped.get(k, 0) + v
        self.hashes |= o.hashes
        self.distinct += o.distinct
        for s in o.samples:
            fam = s["input"].get("family") if isinstance(s.get("input"), dict) else None
            if sum(1 for x in self.samples if x["input"].get("family") == fam) < 3:
                self.samples.append(s)
        self.probe.update(o.probe)
        for k, v in o.notes.items():
            self.notes.setdefault(k, v)
        for k, f in o.observations.items():
            old = self.observations.get(k)
            if old is None or (f["_size"], json.dumps(f["witness"], sort_keys=True, default=str)) < \
                    (old["_size"], json.dumps(old["witness"], sort_keys=True, default=str)):
                n = f.get("count", 1) + (old.get("count", 1) if old else 0)
                self.observations[k] = dict(f, count=n)
            else:
                old["count"] = old.get("count", 1) + f.get("count", 1)


# ------------------------------------------------------------------------------------------------
# Own walks over the raw pointer fields (no library traversal)
# ------------------------------------------------------------------------------------------------
def is_composite(op):
    return hasattr(op, "_circuit_graph")


def own_layers(graph, guard=DOCUMENTED_DEPTH_LIMIT * 4):
    """breadth-first layers of the pointer tree below the entry node (layer 0 = [entry node]); end node excluded.
    Returns (layers, is_tree)."""
    root, end = graph._entrypoint_node, graph._endpoint_node
    layers, seen, tree = [[root]], {id(root)}, True
    while len(layers) < guard:
        nxt = []
        for n in layers[-1]:
            for m in n._outgoing_pointers:
                if m is end:
                    continue
                if id(m) in seen:
                    tree = False
                    continue
                seen.add(id(m))
                nxt.append(m)
        if not nxt:
            break
        layers.append(nxt)
    return layers, tree


def own_nodes(comp):
    """operation nodes of a composite in own breadth-first order"""
    layers, _ = own_layers(comp._circuit_graph)
    return [n for layer in layers[1:] for n in layer if hasattr(n, "operation")]


def own_leaves(op):
    """leaf operations below `op` (itself if it is a leaf operation), composites expanded in own breadth-first order"""
    if not is_composite(op):
        return [op]
    out = []
    for n in own_nodes(op):
        out.extend(own_leaves(n.operation))
    return out


def own_all_ops(comp, out=None, parent_of=None):
    """every operation object below a composite (leaf operations and composites); parent_of: id(op) -> composite"""
    out = [] if out is None else out
    for n in own_nodes(comp):
        out.append(n.operation)
        if parent_of is not None:
            parent_of[id(n.operation)] = comp
        if is_composite(n.operation):
            own_all_ops(n.operation, out, parent_of)
    return out


def op_qubits(op):
    if hasattr(op, "qubit_indices"):
        return list(op.qubit_indices)
    if hasattr(op, "control_qubit_index"):
        return [op.control_qubit_index, op.target_qubit_index]
    if hasattr(op, "qubit_index"):
        return [op.qubit_index]
    return [ci.id for ci in op.channel_identifiers]


def snap(op):
    """(kind, qubits, duration) of a leaf operation; the duration getter of a leaf operation never touches start times"""
    return (type(op).__name__, tuple(op_qubits(op)), float(op.duration))


def channels_of(op):
    try:
        return [repr(c) for c in op.channel_identifiers]
    except Exception:  # noqa
        return None


# ------------------------------------------------------------------------------------------------
# Own evaluator of the relation equations (only used to resolve which member a multi-link refers to)
# ------------------------------------------------------------------------------------------------
class Evaluator:
    """rule 'span': a sub-circuit lasts from its earliest start to its latest end (what the property family means by duration);
    rule 'first-level/leaf': the library's present rule (earliest first-level start to latest end of a childless node; the
    difference is property C04's business) - used only to attribute a failure, never to accept one silently"""

    def __init__(self, rule="span"):
        self._s, self._d, self._busy, self.rule = {}, {}, set(), rule

    def dur(self, op):
        k = id(op)
        if k in self._d:
            return self._d[k]
        if is_composite(op):
            nodes = own_nodes(op)
            if not nodes:
                v = 0.0
            elif self.rule == "span":
                v = max(self.end(n.operation) for n in nodes) - min(self.start(n.operation) for n in nodes)
            else:
                graph = op._circuit_graph
                end = graph._endpoint_node
                first = [n for n in graph._entrypoint_node._outgoing_pointers if n is not end]
                leaves = [n for n in nodes if not [m for m in n._outgoing_pointers if m is not end]]
                rel = min(self.start(n.operation) for n in first)
                v = max([0.0] + [self.end(n.operation) - rel for n in leaves])
        else:
            v = float(op.duration)
        self._d[k] = v
        return v

    def ref(self, link):
        if type(link).__name__ == "MultiRelationLink":
            refs = link._reference_nodes
            if not refs:
                return None
            latest = refs[0]
            for r in refs:
                if self.end(r) > self.end(latest):
                    latest = r
            return latest
        return link._reference_node

    def start(self, op):
        k = id(op)
        if k in self._s:
            return self._s[k]
        if k in self._busy:
            raise RecursionError("cyclic relation")
        self._busy.add(k)
        link = op.relation
        ref = self.ref(link)
        if ref is None:
            v = 0.0
        else:
            t = link._relation_type.name
            if t == "FOLLOWED_BY":
                v = self.end(ref)
            elif t == "JOINED_START":
                v = self.start(ref)
            else:
                v = self.end(ref) - self.dur(op)
        self._busy.discard(k)
        self._s[k] = v
        return v

    def end(self, op):
        return self.start(op) + self.dur(op)


# ------------------------------------------------------------------------------------------------
# Graph contract: caches / wiring / observers of a real graph against model layers
# ------------------------------------------------------------------------------------------------
def ids(seq):
    return [id(x) for x in seq]


def check_graph(graph, model_layers, stats, witness, model_children=None, label=None):
    """model_layers: list of lists of real node objects (layer 0 = [entry node]).  model_children: id(node) -> [children]
    when the model is independent of the pointer fields (tree family); None when the layers come from the own walk."""
    lib = L()
    end = graph._endpoint_node
    depth = len(model_layers) - 1
    sfx = ":near-depth-limit" if depth >= DEEP else ""
    label = label or (lambda n: "entry" if n is graph._entrypoint_node else ("end" if n is end else getattr(n, "_c02_label", repr(n))))

    def lab(seq):
        return [label(n) for n in seq][:40]

    flat = [n for layer in model_layers for n in layer]
    # -- pointer fields against the independent model
    if model_children is not None:
        stats.n["graph-pointers"] += 1
        for n in flat:
            got = [m for m in n._outgoing_pointers if m is not end]
            want = model_children[id(n)]
            if ids(got) != ids(want):
                cls = "child-lost" if len(got) < len(want) else ("child-order" if sorted(ids(got)) == sorted(ids(want)) else "child-list")
                stats.fail(f"append_pointers_to:{cls}{sfx}", "after append_pointers_to(X, [p..]) the fresh nodes are the last children of X, nothing else moved",
                           "CircuitGraphBranch.append_pointers_to", witness, {"node": label(n), "children": lab(got)}, {"children": lab(want)})
                break
    # -- layer cache
    stats.n["graph-layers"] += 1
    cached = graph._cached_branch_iterator
    cflat = [n for layer in cached for n in layer]
    cnt = collections.Counter(ids(cflat))
    mids = set(ids(flat))
    missing = [n for n in flat if cnt[id(n)] == 0]
    dup = [n for n in flat if cnt[id(n)] > 1]
    foreign = [n for n in cflat if id(n) not in mids]
    fn = "GraphBranch._update_branch_iterator"
    if missing:
        stats.fail(f"_update_branch_iterator:node-missing{sfx}", "every node of the pointer tree is in the cached layers", fn, witness,
                   {"missing": lab(missing), "cached_nodes": len(cflat)}, {"nodes": len(flat)})
    elif dup:
        stats.fail(f"_update_branch_iterator:node-duplicated{sfx}", "every node of the pointer tree is in the cached layers exactly once", fn, witness,
                   {"duplicated": lab(dup)}, "once")
    elif foreign:
        stats.fail(f"_update_branch_iterator:foreign-node{sfx}", "the cached layers contain nothing but the nodes of the pointer tree", fn, witness,
                   {"foreign": lab(foreign)}, [])
    elif [sorted(ids(x)) for x in cached] != [sorted(ids(x)) for x in model_layers]:
        stats.fail(f"_update_branch_iterator:layer-membership{sfx}", "cached layer k = the nodes at depth k of the pointer tree", fn, witness,
                   {"layers": [lab(x) for x in cached][:12]}, {"layers": [lab(x) for x in model_layers][:12]})
    elif [ids(x) for x in cached] != [ids(x) for x in model_layers]:
        stats.fail(f"_update_branch_iterator:layer-order{sfx}", "inside a cached layer the nodes are in breadth-first (child) order", fn, witness,
                   {"layers": [lab(x) for x in cached][:12]}, {"layers": [lab(x) for x in model_layers][:12]})
    # -- leaf cache
    stats.n["graph-leaf-cache"] += 1
    if model_children is not None:
        mleaves = [n for n in flat if not model_children[id(n)]]
    else:
        mleaves = [n for n in flat if not [m for m in n._outgoing_pointers if m is not end]]
    cleaves = graph._cached_leaf_nodes
    if sorted(ids(cleaves)) != sorted(ids(mleaves)):
        stats.fail(f"_update_branch_iterator:leaf-cache-membership{sfx}", "cached leaf nodes = the childless nodes of the pointer tree (the entry node if there is no other)",
                   fn, witness, {"leaves": lab(cleaves)}, {"leaves": lab(mleaves)})
    elif ids(cleaves) != ids(mleaves):
        stats.fail(f"_update_branch_iterator:leaf-cache-order{sfx}", "cached leaf nodes are in breadth-first order", fn, witness,
                   {"leaves": lab(cleaves)}, {"leaves": lab(mleaves)})
    # -- wiring to the end node / incoming pointers
    stats.n["graph-wiring"] += 1
    leafset = set(ids(mleaves))
    bad = None
    for n in flat:
        to_end = [m for m in n._outgoing_pointers if m is end]
        if (id(n) in leafset) != (len(to_end) == 1) or len(to_end) > 1:
            bad = {"node": label(n), "pointers_to_end": len(to_end), "is_leaf": id(n) in leafset}
            break
    if bad is None and sorted(ids(end._incoming_pointers)) != sorted(leafset):
        bad = {"end_incoming": lab(end._incoming_pointers)}
    if bad is not None:
        stats.fail(f"update_point_leafs_to_endpoint:end-node-wiring{sfx}", "exactly the childless nodes point to the end node, once each",
                   "GraphBranch.update_point_leafs_to_endpoint", witness, bad, {"leaves": lab(mleaves)})
    if model_children is not None:
        parent = {}
        for n in flat:
            for m in model_children[id(n)]:
                parent[id(m)] = n
        for n in flat[1:]:
            if ids(n._incoming_pointers) != [id(parent[id(n)])]:
                stats.fail(f"append_pointers_to:incoming-pointers{sfx}", "every node has exactly one incoming pointer, its parent",
                           "CircuitGraphBranch.append_pointers_to", witness, {"node": label(n), "incoming": lab(n._incoming_pointers)},
                           {"incoming": [label(parent[id(n)])]})
                break
    # -- public observers: functions of the two cache fields (the fields themselves are judged above against the model)
    stats.n["graph-observers"] += 1
    cdepth = len(cached) - 1
    try:
        obs = {
            "get_branch_iterator": [ids(x) for x in graph.get_branch_iterator()] == [ids(x) for x in cached],
            "get_node_iterator": ids(graph.get_node_iterator()) == ids([n for n in cflat if isinstance(n, lib.comp.OperationGraphNode)]),
            "get_branch_depth": graph.get_branch_depth() == cdepth,
            "leaf_nodes": ids(graph.leaf_nodes) == ids(cleaves),
            "empty_graph": bool(graph.empty_graph) == (len(cleaves) == 1 and cleaves[0] is graph._entrypoint_node),
            "root_node": graph.root_node is graph._entrypoint_node,
        }
        probe_depths = range(-1, cdepth + 2) if cdepth < 50 else [-1, 0, 1, cdepth - 1, cdepth, cdepth + 1]
        obs["get_nodes_at"] = all(ids(graph.get_nodes_at(d)) == (ids(cached[d]) if 0 <= d <= cdepth else []) for d in probe_depths)
    except Exception as e:  # noqa
        obs = {"raises-" + type(e).__name__: False}
    for name, ok in obs.items():
        if not ok:
            stats.fail(f"GraphBranch.{name}:differs-from-cache-fields{sfx}", f"{name} reports the cached layers / nodes / leaves / depth",
                       f"GraphBranch.{name}", witness, "differs", "as the cache fields")
            break


# ------------------------------------------------------------------------------------------------
# Family T: every ordered rooted tree, in every insertion order, three ways of building
# ------------------------------------------------------------------------------------------------
def make_nodes(n, ops):
    """n fresh OperationGraphNodes carrying real operations: 'distinct' (different qubits) or 'equal' (value-equal
    operations sharing one relation link object, so that only the node identity tells them apart)"""
    lib = L()
    nodes = []
    shared = lib.RelationLink.no_relation()
    for k in range(1, n + 1):
        op = lib.co.Identity(k) if ops == "distinct" else lib.co.Identity(0, relation=shared)
        node = lib.comp.OperationGraphNode(operation=op)
        object.__setattr__(node, "_c02_label", k)
        nodes.append(node)
    return nodes


def build_tree(parents, how, ops):
    """parents[k-1] in [0, k-1] is the parent of node k (0 = entry node).  Returns (graph, nodes)"""
    lib = L()
    n = len(parents)
    graph = lib.comp.CircuitGraphBranch()
    nodes = make_nodes(n, ops)
    at = lambda i: graph.root_node if i == 0 else nodes[i - 1]  # noqa: E731
    if how == "single":
        for k, p in enumerate(parents, start=1):
            if k % 128 == 0 and _DEADLINE[0] is not None and time.time() > _DEADLINE[0]:
                raise _OutOfTime()
            graph.append_pointer_to(at(p), at(k))
    elif how == "group":
        k = 1
        while k <= n:
            j = k
            while j + 1 <= n and parents[j] == parents[k - 1]:
                j += 1
            graph.append_pointers_to(at(parents[k - 1]), [at(i) for i in range(k, j + 1)])
            k = j + 1
    elif how == "prelinked":
        # sub-trees are linked outside the graph (public point_towards), then each depth-1 head is appended
        for k, p in enumerate(parents, start=1):
            if p != 0:
                at(p).point_towards(at(k))
        for k, p in enumerate(parents, start=1):
            if p == 0:
                graph.append_pointer_to(graph.root_node, at(k))
    else:
        raise ValueError(how)
    return graph, nodes


def model_of(parents, graph, nodes):
    at = lambda i: graph._entrypoint_node if i == 0 else nodes[i - 1]  # noqa: E731
    children = {id(at(i)): [] for i in range(len(parents) + 1)}
    for k, p in enumerate(parents, start=1):
        children[id(at(p))].append(at(k))
    layers = [[at(0)]]
    while True:
        nxt = [m for n in layers[-1] for m in children[id(n)]]
        if not nxt:
            break
        layers.append(nxt)
    return children, layers


def check_tree(parents, how, ops, stats):
    witness = {"family": "tree", "parents": list(parents), "build": how, "ops": ops}
    try:
        graph, nodes = build_tree(parents, how, ops)
    except Exception as e:  # noqa
        stats.fail(f"append_pointers_to:raises-{type(e).__name__}", "appending a fresh node below a node of the graph succeeds",
                   "CircuitGraphBranch.append_pointers_to", witness, "".join(traceback.format_exception_only(type(e), e)).strip()[:200], "no exception")
        return
    children, layers = model_of(parents, graph, nodes)
    check_graph(graph, layers, stats, witness, model_children=children)
    stats.inputs["tree"] += 1


def tree_nontrivial(parents):
    """at least 3 nodes, some node with two children and depth >= 2"""
    if len(parents) < 3:
        return False
    cnt = collections.Counter(parents)
    return max(cnt.values()) >= 2 and any(p != 0 for p in parents)


def run_tree_job(job):
    stats = Stats()
    L()
    n, prefix = job["n"], job["prefix"]
    try:
        ranges = [range(0, k) for k in range(len(prefix) + 1, n + 1)]
        for rest in itertools.product(*ranges):
            if _DEADLINE[0] is not None and time.time() > _DEADLINE[0]:
                stats.skip("time budget of the tier exhausted (tree family)")
                break
            parents = tuple(prefix) + rest
            for how in ("single", "group", "prelinked"):
                for ops in ("distinct", "equal"):
                    check_tree(parents, how, ops, stats)
            if tree_nontrivial(parents):
                stats.distinct += 1
        stats.probe["tree_sequences"] += 0
    except Exception as e:  # noqa
        stats.skip("harness error: " + "".join(traceback.format_exception_only(type(e), e)).strip()[:300] +
                   " @ " + traceback.format_tb(e.__traceback__)[-1].strip()[:200])
    if len(prefix) == 0 or tuple(prefix) == (0, 1, 0):
        stats.samples.append({"input": {"family": "tree", "nodes": n, "parent_sequences_from": list(prefix)},
                              "checked": "pointer lists, cached layers, cached leaves, end-node wiring, observers against the model tree of each parent sequence"})
    return stats


def tree_jobs(nmax):
    jobs = []
    for n in range(0, nmax + 1):
        if n <= 5:
            jobs.append({"kind": "tree", "n": n, "prefix": []})
        else:
            for prefix in itertools.product(*[range(0, k) for k in range(1, 5)]):     # 24 prefixes
                if n >= 9:
                    for p5 in range(5):
                        jobs.append({"kind": "tree", "n": n, "prefix": list(prefix) + [p5]})
                else:
                    jobs.append({"kind": "tree", "n": n, "prefix": list(prefix)})
    return jobs


# ------------------------------------------------------------------------------------------------
# Family D: graphs and programs just below the documented depth limit
# ------------------------------------------------------------------------------------------------
class _OutOfTime(Exception):
    pass


def chain_parents(n, fan=0):
    parents = list(range(0, n))            # node k below node k-1
    parents += [n] * fan                   # `fan` more children below the deepest node
    return parents


def check_chain(spec, stats, verbose=False):
    """spec: {"family": "chain", "level": "graph-prelinked"|"graph-single"|"program", "n": N, "fan": f}"""
    lib = L()
    n, fan, level = int(spec["n"]), int(spec.get("fan", 0)), spec["level"]
    witness = dict(spec)
    if level.startswith("graph"):
        parents = chain_parents(n, fan)
        with warnings.catch_warnings(record=True) as wlist:
            warnings.simplefilter("always")
            graph, nodes = build_tree(parents, "prelinked" if level == "graph-prelinked" else "single", "distinct")
        children, layers = model_of(parents, graph, nodes)
        if len(layers) > DOCUMENTED_DEPTH_LIMIT:
            # beyond the documented limit: not judged, only recorded
            kept = sum(len(x) for x in graph._cached_branch_iterator)
            stats.notes[f"beyond-limit:{level}:{n}+{fan}"] = {"model_layers": len(layers), "cached_layers": len(graph._cached_branch_iterator), "nodes_kept": kept,
                                                            "nodes": n + fan + 1, "warned": any("WhileLoopSafety" in type(w.message).__name__ or "safety" in str(w.message).lower() for w in wlist)}
            return
        check_graph(graph, layers, stats, witness, model_children=children)
        stats.inputs["chain-graph"] += 1
        stats.distinct += 1
        return
    if level == "program-nested":
        # a sub-circuit that holds a chain of n operations, added to a circuit (judged with all program clauses if it can be built)
        before = dict(stats.skipped)
        check_program({"items": [{"k": "Rx180", "q": [1]}, {"k": "sub", "reps": 1, "items": [{"k": "Identity", "q": [0]} for _ in range(n)]}],
                       "G": "A", "post": "none"}, stats)
        new = {k: v for k, v in stats.skipped.items() if before.get(k) != v}
        stats.notes[f"nested-chain:{n}"] = "listed and judged" if not new else "; ".join(new)
        if not new:
            stats.inputs["chain-program"] += 1
        return
    # program level: n operations, each following the previous one, `fan` operations all joined to the deepest one
    kind = spec.get("via", "channel")
    circ = lib.DeclarativeCircuit()
    given, prev = [], None
    t0 = time.time()
    for i in range(n):
        if i % 128 == 0 and _DEADLINE[0] is not None and time.time() > _DEADLINE[0]:
            raise _OutOfTime()
        if kind == "channel":
            op = lib.co.Identity(0)                                   # implicit link: same channel
        else:
            rel = None if prev is None else lib.RelationLink(prev, lib.RelationType.JOINED_START)
            op = lib.co.Wait(i % 3, duration_strategy=lib.rd.FixedDurationStrategy(float(i % 2)), **({"relation": rel} if rel else {}))
        prev = circ.add(op)
        given.append((op, prev, snap(op)))
    for j in range(fan):
        op = lib.co.Rx180(5 + j, relation=lib.RelationLink(prev, lib.RelationType.FOLLOWED_BY))
        given.append((op, circ.add(op), snap(op)))
    try:
        with warnings.catch_warnings(record=True) as wlist:
            warnings.simplefilter("always")
            l1 = circ.operations
            l2 = circ.operations
    except Exception as e:  # noqa
        if n + 1 <= DOCUMENTED_DEPTH_LIMIT:
            stats.inputs["chain-program"] += 1
            stats.fail(f"listing:raises:{exc_where(e)}" + (":near-depth-limit" if n >= DEEP else ""), "circuit.operations returns the listing of every circuit built through add",
                       "DeclarativeCircuit.operations", witness, "".join(traceback.format_exception_only(type(e), e)).strip()[:200], "a list")
        return
    if n + 1 > DOCUMENTED_DEPTH_LIMIT:
        stats.notes[f"beyond-limit:program:{n}+{fan}"] = {"added": len(given), "listed": len(l1)}
        return
    stats.inputs["chain-program"] += 1
    stats.distinct += 1
    sfx = ":near-depth-limit" if n >= DEEP else ""
    fnl = "CircuitCompositeOperation.decomposed_operations"
    stats.n["add-returns"] += 1
    if any(g is not r for g, r, _ in given):
        stats.fail(f"add:returned-object-is-not-the-added-operation{sfx}", "add returns the operation it was given", "DeclarativeCircuit.add_operation", witness, None, None)
    stats.n["complete"] += 1
    cnt = collections.Counter(ids(l1))
    missing = [i for i, (g, r, s) in enumerate(given) if cnt[id(r)] == 0]
    dup = [i for i, (g, r, s) in enumerate(given) if cnt[id(r)] > 1]
    known = {id(r) for _, r, _ in given}
    if missing:
        stats.fail(f"listing-complete:leaf-missing:plain-operation{sfx}", "every added operation is listed", fnl, witness,
                   {"listed": len(l1), "missing_positions_in_program": missing[:10]}, {"listed": len(given)})
    if dup:
        stats.fail(f"listing-complete:leaf-duplicated{sfx}", "every added operation is listed once", fnl, witness, {"duplicated": dup[:10]}, "once")
    if any(id(o) not in known for o in l1):
        stats.fail(f"listing-complete:foreign-entry{sfx}", "nothing but the added operations is listed", fnl, witness, None, None)
    stats.n["content"] += 1
    for i, (g, r, s) in enumerate(given):
        if snap(r) != s:
            stats.fail(f"listing-content:changed:plain-operation{sfx}", "kind, qubits and duration of a listed operation are those it was added with", fnl, witness,
                       {"item": i, "now": snap(r)}, {"was": s})
            break
    stats.n["causal"] += 1
    pos = {id(o): i for i, o in enumerate(l1)}
    for i, (g, r, s) in enumerate(given):
        ref = r.relation._reference_node
        if ref is not None and id(r) in pos and not (id(ref) in pos and pos[id(ref)] < pos[id(r)]):
            stats.fail(f"causal:listed-before-referent:plain-operation{sfx}", "an operation is listed after the operation its relation refers to", fnl, witness,
                       {"item": i, "position": pos[id(r)], "referent_position": pos.get(id(ref))}, "referent first")
            break
    stats.n["stable"] += 1
    if ids(l1) != ids(l2):
        stats.fail(f"stable:second-listing-differs{sfx}", "listing twice gives the same sequence", "DeclarativeCircuit.operations", witness,
                   {"first": len(l1), "second": len(l2)}, "identical")
    layers, tree = own_layers(circ._structure._circuit_graph)
    check_graph(circ._structure._circuit_graph, layers, stats, witness)
    if verbose:
        print(f"  chain program n={n} fan={fan} via={kind}: listed {len(l1)} of {len(given)} in {time.time() - t0:.1f} s, warnings {len(wlist)}")


def run_chain_job(job):
    stats = Stats()
    L()
    try:
        if _DEADLINE[0] is not None and time.time() > _DEADLINE[0]:
            raise _OutOfTime()
        judged = stats.inputs["chain-graph"] + stats.inputs["chain-program"]
        check_chain(job["spec"], stats)
        if stats.inputs["chain-graph"] + stats.inputs["chain-program"] > judged and job["spec"]["n"] >= DEEP:
            stats.samples.append({"input": job["spec"], "checked": "all clauses on a graph / program whose depth is just below the documented limit "
                                  f"({DOCUMENTED_DEPTH_LIMIT} layers including the entry layer)"})
    except _OutOfTime:
        stats.skip("time budget of the tier exhausted (near-limit chain " + json.dumps(job["spec"], sort_keys=True) + ")")
    except Exception as e:  # noqa
        stats.skip("harness error: " + "".join(traceback.format_exception_only(type(e), e)).strip()[:300] +
                   " @ " + traceback.format_tb(e.__traceback__)[-1].strip()[:200])
    return stats



# ------------------------------------------------------------------------------------------------
# Family P: build programs (JSON) through the public API
# ------------------------------------------------------------------------------------------------
class Rec:
    __slots__ = ("item", "given", "returned", "snap", "children", "link", "chan")


def _duration_strategy(lib, it):
    d = float(it.get("d", 0.0))
    ds = it.get("ds", "fixed")
    if ds == "fixed":
        return lib.rd.FixedDurationStrategy(duration=d)
    if ds == "reg":
        reg = lib.rd.DurationRegistry()
        reg.set_registry_at("c02", d)
        return lib.rd.RegistryDurationStrategy(registry=reg, registry_key="c02")
    if ds == "dyn":
        return lib.rd.DynamicDurationStrategy(duration_call=lambda d=d: d)
    raise ValueError(ds)


def make_op(lib, it, rel, acq):
    k, q = it["k"], it["q"]
    co = lib.co
    kw = {}
    if rel is not None:
        kw["relation"] = rel
    if k in SQ_GLOBAL:
        return getattr(co, k)(q[0], **kw)
    if k in SQ_FIXED:
        kw["duration_strategy"] = _duration_strategy(lib, it)
        if k != "SingleQubitOperation":
            kw["qubit_channel"] = getattr(lib.QubitChannel, CH[it.get("ch", "ALL")])
        return getattr(co, k)(q[0], **kw)
    if k in ("CPhase", "TwoQubitVirtualPhase"):
        return getattr(co, k)(q[0], q[1], **kw)
    if k == "TwoQubitOperation":
        kw["duration_strategy"] = _duration_strategy(lib, it)
        return co.TwoQubitOperation(q[0], q[1], **kw)
    if k == "VirtualTwoQubitVacant":
        kw["duration_strategy"] = _duration_strategy(lib, it)
        kw["qubit_channel"] = getattr(lib.QubitChannel, CH[it.get("ch", "ALL")])
        return co.VirtualTwoQubitVacant(q[0], q[1], **kw)
    if k == "DispersiveMeasure":
        return co.DispersiveMeasure(q[0], acquisition_strategy=acq, **kw)
    if k == "Barrier":
        op = co.Barrier(list(q))
        if rel is not None:
            op.relation_link = rel
        return op
    raise ValueError(f"unknown kind {k}")


def table_duration(it, gname):
    """duration an item must have under the override table `gname` (None: not determined by an own table)"""
    k = it["k"]
    T = GLOBALS[gname]
    if k in SQ_FIXED or k in ("TwoQubitOperation", "VirtualTwoQubitVacant"):
        return float(it.get("d", 0.0))
    if k == "Barrier":
        return 0.5
    if k == "TwoQubitVirtualPhase":
        return 0.0
    if T is None:
        return None
    if k in SQ_GLOBAL:
        return T[SQ_GLOBAL[k]]
    if k == "CPhase":
        return T["FLUX"]
    if k == "DispersiveMeasure":
        return T["READOUT"]
    return None


def build_items(lib, circ, items, acq):
    recs = []
    for it in items:
        rel = None
        if it.get("rel"):
            if "share" in it:
                rel = recs[it["share"]].link               # the very same link object as an earlier item
            else:
                idx, t = it["rel"]
                rel = lib.RelationLink(recs[idx].returned, getattr(lib.RelationType, RELT[t]))
        r = Rec()
        r.item, r.link, r.children, r.snap, r.chan = it, rel, None, None, None
        if it["k"] == "again":
            # the very same DeclarativeCircuit object as item `of` is added once more
            src = recs[it["of"]]
            r.children = src.children
            r.given = src.given
            r.returned = circ.add(src.given)
        elif it["k"] == "sub":
            kw = {"repetition_strategy": lib.FixedRepetitionStrategy(int(it.get("reps", 1)))}
            if rel is not None:
                kw["relation"] = rel
            sub = lib.DeclarativeCircuit(**kw)
            r.children = build_items(lib, sub, it["items"], acq)
            r.given = sub
            r.returned = circ.add(sub)
        else:
            op = make_op(lib, it, rel, acq)
            r.snap = snap(op)
            r.chan = channels_of(op)
            r.given = op
            r.returned = circ.add(op)
        recs.append(r)
    return recs


def rec_leaf_snaps(rec):
    if rec.children is None:
        return [(rec.snap, rec.item)]
    out = []
    for c in rec.children:
        out.extend(rec_leaf_snaps(c))
    return out


def program_size(items):
    return sum(1 + (program_size(it["items"]) if it["k"] == "sub" else 0) for it in items)


def _resolve(items, it):
    while it["k"] == "again":
        it = items[it["of"]]
    return it


def program_stats(items, st=None):
    st = {"ops": 0, "rel": 0, "sub": 0} if st is None else st
    for it in items:
        if it.get("rel"):
            st["rel"] += 1
        if it["k"] == "again":
            st["sub"] += 1
        elif it["k"] == "sub":
            st["sub"] += 1
            program_stats(it["items"], st)
        else:
            st["ops"] += 1
    return st


def link_class(op, link, parent_of, explicit_ids, level_is_copy):
    if type(link).__name__ == "MultiRelationLink":
        return "multi-link"
    par = parent_of.get(id(op))
    if par is not None and par.relation is link:
        return "handed-down-link"
    if id(link) in explicit_ids:
        return "explicit-link"
    if level_is_copy.get(id(op)):
        return "link-of-copied-operation"
    return "implicit-link"


def check_listing(circ, recs, program, gname, stats, witness, level):
    """All clauses of C02 on one circuit built by `recs` (top level, or the original of a sub-circuit: level > 0).
    Returns the first listing."""
    lib = L()
    fnl = "CircuitCompositeOperation.decomposed_operations"
    top = circ._structure
    lv = ""   # the same witness classes for a sub-circuit listed on its own (level > 0)

    # ---- add returns the added operation / the composite that is in the graph ----------------------------------------
    stats.n["add-returns"] += 1
    for i, r in enumerate(recs):
        if r.children is None and r.returned is not r.given:
            stats.fail("add:returned-object-is-not-the-added-operation" + lv, "add returns the operation it was given", "DeclarativeCircuit.add_operation",
                       witness, {"item": i, "returned": type(r.returned).__name__}, "the given object")
        if r.children is not None and not is_composite(r.returned):
            stats.fail("add:sub-circuit-result-is-not-a-composite" + lv, "adding a sub-circuit returns the composite operation that now is part of the circuit",
                       "DeclarativeCircuit.add_sub_circuit", witness, {"item": i, "returned": type(r.returned).__name__}, "composite")
    stats.n["graph-holds-added"] += 1
    node_ops = [n.operation for n in own_nodes(top)]
    cnt = collections.Counter(ids(node_ops))
    lost = [i for i, r in enumerate(recs) if cnt[id(r.returned)] == 0]
    twice = [i for i, r in enumerate(recs) if cnt[id(r.returned)] > 1]
    retids = {id(r.returned) for r in recs}
    foreign = [type(o).__name__ for o in node_ops if id(o) not in retids]
    if lost:
        kinds = sorted({("sub-circuit" if recs[i].children is not None else "plain-operation") for i in lost})
        stats.fail(f"graph:added-operation-not-in-pointer-tree:{'+'.join(kinds)}" + lv, "every object returned by add is the operation of exactly one node reachable from the entry node",
                   "CircuitGraphBranch.add_to_graph", witness, {"items_not_reachable": lost, "reachable_nodes": len(node_ops)}, {"nodes": len(recs)})
    if twice:
        stats.fail("graph:added-operation-in-two-nodes" + lv, "every object returned by add is the operation of exactly one node", "CircuitGraphBranch.add_to_graph",
                   witness, {"items": twice}, "once")
    if foreign:
        stats.fail("graph:foreign-operation-in-pointer-tree" + lv, "the nodes of the circuit graph carry nothing but the objects returned by add", "CircuitGraphBranch.add_to_graph",
                   witness, {"foreign": foreign[:6]}, [])

    # ---- links before the first listing (explicit + implicit), read by the own walk ------------------------------------------
    parent_of = {}
    all_before = own_all_ops(top, parent_of=parent_of)
    links_before = {id(o): o.relation for o in all_before}
    explicit_ids = set()

    def collect(rs):
        for r in rs:
            if r.link is not None:
                explicit_ids.add(id(r.link))
            if r.children is not None:
                collect(r.children)
    collect(recs)
    is_copy = {}
    for r in recs:
        if r.children is not None and is_composite(r.returned):
            for o in own_all_ops(r.returned):
                is_copy[id(o)] = True

    # ---- the listing, twice -----------------------------------------------------------------------------------------------------
    try:
        l1 = circ.operations
        l2 = circ.operations
    except Exception as e:  # noqa
        stats.fail(f"listing:raises:{exc_where(e)}", "circuit.operations returns the listing of every circuit built through add", "DeclarativeCircuit.operations",
                   witness, "".join(traceback.format_exception_only(type(e), e)).strip()[:200], "a list")
        return []
    common.clear_caches()
    pos = {}
    for i, o in enumerate(l1):
        pos.setdefault(id(o), i)

    stats.n["stable"] += 1
    if ids(l1) != ids(l2):
        cls = "length" if len(l1) != len(l2) else ("order" if sorted(ids(l1)) == sorted(ids(l2)) else "objects")
        stats.fail(f"stable:second-listing-differs:{cls}" + lv, "listing twice gives the same sequence (same objects, same order)", "DeclarativeCircuit.operations",
                   witness, {"first": [type(o).__name__ for o in l1][:20], "second": [type(o).__name__ for o in l2][:20]}, "identical")

    # ---- complete: exactly the added leaf operations, once each (identity) ----------------------------------------------------
    stats.n["complete"] += 1
    blocks = []          # per item: the leaf objects that belong to it (own walk below the returned object)
    for r in recs:
        blocks.append(own_leaves(r.returned) if (r.children is None or is_composite(r.returned)) else [])
    lcnt = collections.Counter(ids(l1))
    expected_ids = {}
    for i, b in enumerate(blocks):
        for o in b:
            expected_ids[id(o)] = i
    for i, (r, b) in enumerate(zip(recs, blocks)):
        miss = [o for o in b if lcnt[id(o)] == 0]
        if miss:
            o = miss[0]
            where = "plain-operation" if r.children is None else "leaf-of-sub-circuit"
            twin = any((x is not o) and _value_equal(x, o) for x in l1)
            cls = where + (":value-equal-twin-is-listed" if twin else "")
            stats.fail(f"listing-complete:leaf-missing:{cls}" + lv, "every added leaf operation is an entry of the listing", fnl, witness,
                       {"item": i, "missing": [snap(x) for x in miss][:5], "listing": [type(x).__name__ for x in l1][:20]}, {"entries": sum(len(x) for x in blocks)})
            break
    dups = [o for o in l1 if lcnt[id(o)] > 1]
    if dups:
        stats.fail("listing-complete:leaf-duplicated" + lv, "one entry per added leaf operation", fnl, witness,
                   {"duplicated": snap(dups[0]) if not is_composite(dups[0]) else "composite", "times": lcnt[id(dups[0])]}, "once")
    foreign = [o for o in l1 if id(o) not in expected_ids]
    if foreign:
        o = foreign[0]
        originals = set()

        def orig(rs):
            for r in rs:
                if r.children is not None:
                    for c in r.children:
                        originals.add(id(c.returned))
                    originals.add(id(r.given._structure))
                    orig(r.children)
        orig(recs)
        cls = "composite-listed" if is_composite(o) else ("original-of-copied-sub-circuit-operation" if id(o) in originals else "unknown-object")
        stats.fail(f"listing-complete:foreign-entry:{cls}" + lv, "the listing contains nothing but the added leaf operations (sub-circuits expanded)", fnl, witness,
                   {"entry": type(o).__name__, "position": pos[id(o)]}, "only added leaf operations")

    # ---- content: kind, qubits, duration unchanged (against the snapshot taken at construction and the own duration table) ---
    stats.n["content"] += 1
    for i, (r, b) in enumerate(zip(recs, blocks)):
        want = rec_leaf_snaps(r)
        if r.children is None:
            now = snap(r.returned)
            if now != r.snap:
                field = "kind" if now[0] != r.snap[0] else ("qubits" if now[1] != r.snap[1] else "duration")
                stats.fail(f"listing-content:{field}-changed:plain-{r.snap[0]}" + lv, "a listed operation has the kind, qubits and duration it was added with", fnl, witness,
                           {"item": i, "now": now}, {"added_as": r.snap})
        else:
            got = collections.Counter(snap(o) for o in b)
            exp = collections.Counter(s for s, _ in want)
            if got != exp:
                _content_failure(stats, witness, i, got, exp, b, lv)
        td_bad = [(s, it) for s, it in want if table_duration(it, gname) is not None and abs(table_duration(it, gname) - s[2]) > 1e-12]
        stats.probe["duration_at_construction_checked"] += len(want)
        stats.probe["duration_at_construction_differs_from_own_table"] += len(td_bad)

    # ---- in place: the leaves of every composite are one contiguous block of the listing -----------------------------------
    all_after = own_all_ops(top, parent_of=parent_of)
    composites = [o for o in all_after if is_composite(o)]
    span = {}
    for c in composites:
        stats.n["in-place"] += 1
        ps = sorted(pos[id(o)] for o in own_leaves(c) if id(o) in pos)
        if ps:
            span[id(c)] = (ps[0], ps[-1])
            if ps != list(range(ps[0], ps[0] + len(ps))):
                depth = 0
                p = c
                while id(p) in parent_of and parent_of[id(p)] is not top:
                    p = parent_of[id(p)]
                    depth += 1
                stats.fail(f"expanded-in-place:not-contiguous:{'nested-' if depth else ''}sub-circuit" + lv, "the leaf entries of one sub-circuit are one contiguous block of the listing",
                           fnl, witness, {"positions": ps}, "contiguous")

    # ---- causal: never before the operation its relation refers to (links after the listing and links before it) -----------
    ev = Evaluator()

    def first_last(o):
        if is_composite(o):
            return span.get(id(o))
        p = pos.get(id(o))
        return None if p is None else (p, p)

    inside = set(ids(all_after))

    def causal(o, link, when):
        try:
            ref = ev.ref(link)
        except RecursionError:
            stats.skip("cyclic relation among the referents of a multi-link")
            return
        if ref is None:
            return
        me = first_last(o)
        if me is None:
            return
        stats.n["causal"] += 1
        cls = link_class(o, link, parent_of, explicit_ids, is_copy)
        rf = first_last(ref)
        if rf is None:
            if is_composite(ref):
                return            # a sub-circuit without leaf operations has no entry to come before
            if level == 0 or id(ref) in inside:
                stats.fail(f"causal:referent-not-in-listing:{cls}" + lv, "the operation a listed operation refers to is itself listed (and earlier)", fnl, witness,
                           {"operation": type(o).__name__, "position": me[0], "referent": type(ref).__name__, "links_read": when}, "referent listed earlier")
            return
        if not rf[1] < me[0]:
            stats.fail(f"causal:listed-before-referent:{cls}" + lv, "an operation is never listed before the operation its relation refers to", fnl, witness,
                       {"operation": type(o).__name__, "first_position": me[0], "referent": type(ref).__name__, "referent_last_position": rf[1], "links_read": when,
                        "referrer_is_sub_circuit": is_composite(o), "referent_is_sub_circuit": is_composite(ref), "listing": [type(x).__name__ for x in l1][:20]}, "referent first")

    for o in all_after:
        causal(o, o.relation, "after the first listing")
    for o in all_before:
        if links_before[id(o)] is not o.relation:
            causal(o, links_before[id(o)], "before the first listing")
    # frame of the hand-down (recorded as a probe, not judged here: C01 / C03)
    for o in all_before:
        lb = links_before[id(o)]
        if lb is not o.relation:
            stats.probe["links_replaced_by_listing"] += 1
            had_ref = (lb._reference_node is not None) if hasattr(lb, "_reference_node") else bool(lb._reference_nodes)
            if had_ref:
                stats.probe["links_with_referent_replaced_by_listing"] += 1

    # ---- causal, as declared in the program: item i (plain or sub-circuit) was given a relation to item j ---------------------
    for i, r in enumerate(recs):
        if not r.item.get("rel"):
            continue
        j = r.item["rel"][0]
        bi = sorted(pos[id(o)] for o in blocks[i] if id(o) in pos)
        bj = sorted(pos[id(o)] for o in blocks[j] if id(o) in pos)
        if not bi or not bj:
            continue
        stats.n["causal-declared"] += 1
        if not bj[-1] < bi[0]:
            what = "sub-circuit" if r.children is not None else "plain-operation"
            rw = ""
            stats.fail(f"causal:listed-before-declared-referent:{what}-with-explicit-relation{rw}" + lv,
                       "an item added with an explicit relation to an earlier item is listed after that item (all leaf entries)", fnl, witness,
                       {"item": i, "first_position": bi[0], "referent_item": j, "referent_last_position": bj[-1], "relation": r.item["rel"],
                        "link_of_added_object": repr(r.returned.relation), "listing": [type(x).__name__ for x in l1][:20]}, "referent first")

    # ---- graph layer on the real circuit graphs; listing = in-order expansion of the pointer tree -----------------------------------
    for c in [top] + composites:
        layers, tree = own_layers(c._circuit_graph)
        if not tree:
            stats.fail("graph:pointer-structure-is-not-a-tree" + lv, "every operation node has one incoming pointer", "CircuitGraphBranch.add_to_graph", witness, None, None)
            continue
        check_graph(c._circuit_graph, layers, stats, witness, label=lambda n: type(getattr(n, "operation", n)).__name__)
    stats.n["listing-order"] += 1
    exp = own_leaves(top)
    if ids(exp) != ids(l1) and sorted(ids(exp)) == sorted(ids(l1)):
        stats.fail("listing-order:differs-from-breadth-first-expansion" + lv, "the listing is the in-order expansion of the breadth-first node order of the pointer tree",
                   fnl, witness, {"listing": [snap(o) for o in l1][:12]}, {"expansion": [snap(o) for o in exp][:12]})
    return l1


def _value_equal(a, b):
    try:
        return type(a) is type(b) and a == b
    except Exception:  # noqa
        return False


def _content_failure(stats, witness, i, got, exp, block, lv):
    fnl = "CircuitCompositeOperation.decomposed_operations"
    missing = list((exp - got).elements())
    extra = list((got - exp).elements())
    if sum(got.values()) != sum(exp.values()):
        cls = "fewer-leaves" if sum(got.values()) < sum(exp.values()) else "more-leaves"
        stats.fail(f"listing-content:sub-circuit-leaf-count:{cls}" + lv, "a sub-circuit contributes one entry per leaf operation that was added to it", fnl, witness,
                   {"item": i, "leaves": sorted(got.elements())[:10]}, {"leaves": sorted(exp.elements())[:10]})
        return
    for m in missing:
        for e in extra:
            if m[0] == e[0] and m[1] == e[1]:
                chan = [channels_of(o) for o in block if snap(o) == e][:1]
                stats.fail(f"listing-content:duration-changed:copy-of-{m[0]}-in-sub-circuit" + lv, "a listed operation has the duration it was added with", fnl, witness,
                           {"item": i, "listed": e, "channels_listed": chan}, {"added_as": m})
                return
        for e in extra:
            if m[0] == e[0]:
                stats.fail(f"listing-content:qubits-changed:copy-of-{m[0]}-in-sub-circuit" + lv, "a listed operation has the qubits it was added with", fnl, witness,
                           {"item": i, "listed": e}, {"added_as": m})
                return
    stats.fail("listing-content:kind-changed:copy-in-sub-circuit" + lv, "a listed operation has the kind it was added with", fnl, witness,
               {"item": i, "listed": extra[:5]}, {"added_as": missing[:5]})


def check_after_modifiers(circ, post, stats, witness):
    """limited clauses on the circuit after apply_modifiers (and flatten): no duplicates, stable, in place, causal (multi-links
    resolved by the own evaluator), graph layer.  Which copies must be there is property C06 / C11, not judged here."""
    fnl = "CircuitCompositeOperation.decomposed_operations"
    tag = ":after-apply_modifiers" if post == "mod" else ":after-apply_modifiers+flatten"
    top = circ._structure
    try:
        l1 = circ.operations
        l2 = circ.operations
    except Exception as e:  # noqa
        stats.fail(f"listing:raises:{exc_where(e)}" + tag, "circuit.operations returns the listing", "DeclarativeCircuit.operations",
                   witness, "".join(traceback.format_exception_only(type(e), e)).strip()[:200], "a list")
        return
    common.clear_caches()
    stats.n["post-modifiers"] += 1
    if ids(l1) != ids(l2):
        stats.fail("stable:second-listing-differs" + tag, "listing twice gives the same sequence", "DeclarativeCircuit.operations", witness,
                   {"first": len(l1), "second": len(l2)}, "identical")
    cnt = collections.Counter(ids(l1))
    if any(v > 1 for v in cnt.values()):
        stats.fail("listing-complete:leaf-duplicated" + tag, "one entry per leaf operation", fnl, witness, None, "once")
    if any(is_composite(o) for o in l1):
        stats.fail("listing-complete:foreign-entry:composite-listed" + tag, "sub-circuits are expanded", fnl, witness, None, None)
    pos = {}
    for i, o in enumerate(l1):
        pos.setdefault(id(o), i)
    parent_of = {}
    allops = own_all_ops(top, parent_of=parent_of)
    exp = own_leaves(top)
    if sorted(ids(exp)) != sorted(ids(l1)):
        stats.fail("listing-complete:differs-from-leaves-of-pointer-tree" + tag, "the listing contains exactly the leaf operations reachable in the circuit graph", fnl, witness,
                   {"listed": len(l1)}, {"reachable_leaves": len(exp)})
    elif ids(exp) != ids(l1):
        stats.fail("listing-order:differs-from-breadth-first-expansion" + tag, "the listing is the in-order expansion of the breadth-first node order", fnl, witness, None, None)
    composites = [o for o in allops if is_composite(o)]
    span = {}
    for c in composites:
        ps = sorted(pos[id(o)] for o in own_leaves(c) if id(o) in pos)
        if ps:
            span[id(c)] = (ps[0], ps[-1])
            if ps != list(range(ps[0], ps[0] + len(ps))):
                stats.fail("expanded-in-place:not-contiguous:sub-circuit" + tag, "the leaf entries of one sub-circuit are one contiguous block", fnl, witness, {"positions": ps[:20]}, "contiguous")
    ev = Evaluator()
    inside = set(ids(allops))

    def first_last(o):
        if is_composite(o):
            return span.get(id(o))
        p = pos.get(id(o))
        return None if p is None else (p, p)
    for o in allops:
        link = o.relation
        multi = type(link).__name__ == "MultiRelationLink"
        try:
            ref = ev.ref(link)
        except RecursionError:
            stats.fail("causal:relations-are-cyclic:multi-link" + tag, "every operation is listed after the operation its relation refers to (impossible when the relations form a cycle)",
                       fnl, witness, {"operation": type(o).__name__, "members": [type(m).__name__ for m in link._reference_nodes]}, "acyclic relations")
            continue
        me = first_last(o)
        if ref is None or me is None:
            continue
        stats.n["causal"] += 1
        if multi:
            # timing independent reading: the operation comes after at least one member of the group it refers to
            mem = [first_last(m) for m in link._reference_nodes]
            if not any((p is None and is_composite(m)) or (p is not None and p[1] < me[0]) for p, m in zip(mem, link._reference_nodes)):
                stats.fail("causal:listed-before-every-member-of-its-group" + tag, "an operation with a multi-link is listed after at least one member of the group it refers to",
                           fnl, witness, {"operation": type(o).__name__, "first_position": me[0], "member_positions": mem}, "some member first")
        cls = "multi-link" if multi else "single-link"
        rf = first_last(ref)
        if rf is None:
            if not is_composite(ref):
                stats.fail(f"causal:referent-not-in-listing:{cls}" + tag, "the operation a listed operation refers to is itself listed (and earlier)", fnl, witness,
                           {"operation": type(o).__name__, "position": me[0], "referent": type(ref).__name__, "referent_reachable_in_graph": id(ref) in inside}, "referent listed earlier")
            continue
        if not rf[1] < me[0]:
            if multi:
                try:
                    ref2 = Evaluator("first-level/leaf").ref(link)
                    rf2 = first_last(ref2) if ref2 is not None else None
                    if ref2 is not ref and ((rf2 is not None and rf2[1] < me[0]) or (rf2 is None and ref2 is not None and is_composite(ref2))):
                        cls += ":latest-member-depends-on-sub-circuit-duration-rule"
                except RecursionError:
                    pass
            stats.fail(f"causal:listed-before-referent:{cls}" + tag, "an operation is never listed before the operation its relation refers to", fnl, witness,
                       {"operation": type(o).__name__, "first_position": me[0], "referent": type(ref).__name__, "referent_last_position": rf[1],
                        "listing": [type(x).__name__ for x in l1][:24]}, "referent first")
    for c in [top] + composites:
        layers, tree = own_layers(c._circuit_graph)
        if tree:
            check_graph(c._circuit_graph, layers, stats, witness, label=lambda n: type(getattr(n, "operation", n)).__name__)


def exc_where(err):
    if isinstance(err, RecursionError):
        return "RecursionError"          # the frame in which the limit is hit is incidental
    tb = traceback.extract_tb(err.__traceback__)
    for fr in reversed(tb):
        if "qce_circuit" in fr.filename:
            return f"{type(err).__name__}-in-{fr.name}"
    return type(err).__name__


def check_program(program, stats, verbose=False):
    """program: {"items": [...], "G": "file"|"A"|"B", "post": "none"|"mod"|"modflat"}"""
    lib = L()
    gname, post = program.get("G", "file"), program.get("post", "none")
    witness = {"family": "program", "items": program["items"], "G": gname, "post": post}
    with global_setting(gname):
        common.clear_caches()
        circ = lib.DeclarativeCircuit()
        try:
            recs = build_items(lib, circ, program["items"], circ.get_acquisition_strategy())
        except Exception as e:  # noqa
            stats.skip(f"program cannot be built: {exc_where(e)}")
            return
        stats.inputs["program"] += 1
        l1 = check_listing(circ, recs, program, gname, stats, witness, 0)

        def originals(rs, depth):
            for r in rs:
                if r.children is not None and r.item["k"] != "again":
                    check_listing(r.given, r.children, program, gname, stats, witness, depth)
                    originals(r.children, depth + 1)
        originals(recs, 1)
        if verbose:
            print("  listing:", [snap(o) for o in l1])
        if len(stats.samples) < 3 and program_stats(program["items"])["sub"] and program_stats(program["items"])["rel"]:
            stats.samples.append({"input": witness, "checked": {"listing": [list(snap(o)) for o in l1][:12],
                                  "clauses": "add-returns, graph-holds-added, complete, content, in-place, causal (links before / after the listing, declared), stable, graph layer"}})
        if post in ("mod", "modflat"):
            try:
                with warnings.catch_warnings():
                    warnings.simplefilter("ignore")
                    circ2 = circ.apply_modifiers()
                    if post == "modflat":
                        circ2 = circ2.flatten()
            except Exception as e:  # noqa
                stats.skip(f"modifiers cannot be applied: {exc_where(e)}")
                return
            stats.inputs["program-after-modifiers"] += 1
            ps = Stats()
            check_after_modifiers(circ2, post, ps, witness)
            multi = [k for k in ps.failures if "multi-link" in k]
            if multi and not program.get("_fresh_memo"):
                # attribution by intervention (harness process only): does the failure vanish when the start-time memo is
                # emptied before every add_to_graph, i.e. is a stale memo (property C03) the cause?
                again = _rerun_with_fresh_memo(program)
                again_bu = None
                for k in multi:
                    sfx = None
                    if k not in again:
                        sfx = ":only-with-stale-start-time-memo"
                    else:
                        # second intervention: unroll nested repetitions innermost first (the library unrolls the outer
                        # sub-circuit first and places its copies with the inner durations of that moment)
                        if again_bu is None:
                            again_bu = _rerun_bottom_up(program)
                        if k not in again_bu:
                            sfx = ":only-with-outer-repetition-unrolled-first"
                    if sfx:
                        f = ps.failures.pop(k)
                        f["key"] = k + sfx
                        f["replay_args"]["key"] = f["key"]
                        ps.failures[f["key"]] = f
            for k in [k for k in ps.failures if (":raises:RecursionError" in k or "relations-are-cyclic" in k) and _refers_to_empty_sub(program["items"])]:
                f = ps.failures.pop(k)
                f["key"] = k + ":referent-is-empty-sub-circuit"
                f["replay_args"]["key"] = f["key"]
                ps.failures[f["key"]] = f
            for k in [k for k in ps.failures if any(t in k for t in TIMING_DEPENDENT)]:
                ps.observations[k] = ps.failures.pop(k)
            stats.merge(ps)


# classes of deviations after apply_modifiers / flatten that depend on how start times are evaluated (latest member of a
# multi-link, cycles among relations, recursion while has_relation evaluates end times).  apply_modifiers / flatten are not
# part of C02's quantifier (build programs); these are reported as observations (probe), the timing-independent clauses
# after the modifiers stay failures.
TIMING_DEPENDENT = ("causal:listed-before-referent:multi-link", "causal:referent-not-in-listing:multi-link", "causal:relations-are-cyclic",
                    "listing:raises:RecursionError")


def _has_leaf(items):
    return any((_resolve(items, it)["k"] != "sub") or _has_leaf(_resolve(items, it)["items"]) for it in items)


def _refers_to_empty_sub(items):
    for it in items:
        if it.get("rel"):
            tgt = _resolve(items, items[it["rel"][0]])
            if tgt["k"] == "sub" and not _has_leaf(tgt["items"]):
                return True
        if it["k"] == "sub" and _refers_to_empty_sub(it["items"]):
            return True
    return False


class _Everything:
    def __contains__(self, item):
        return True


def _rerun_bottom_up(program):
    """same program, but repetitions are unrolled innermost first with the library's own repeat(); harness process only"""
    lib = L()
    st = Stats()
    gname, post = program.get("G", "file"), program.get("post", "none")
    witness = {"family": "program", "items": program["items"], "G": gname, "post": post}

    def unroll(comp):
        for n in own_nodes(comp):
            if is_composite(n.operation):
                unroll(n.operation)
        comp.repeat(times=comp.nr_of_repetitions)
        comp.repetition_strategy = lib.FixedRepetitionStrategy(repetitions=1)
    try:
        with global_setting(gname), warnings.catch_warnings():
            warnings.simplefilter("ignore")
            common.clear_caches()
            circ = lib.DeclarativeCircuit()
            build_items(lib, circ, program["items"], circ.get_acquisition_strategy())
            circ.operations
            unroll(circ._structure)
            if post == "modflat":
                circ = circ.flatten()
            check_after_modifiers(circ, post, st, witness)
    except Exception:  # noqa
        return _Everything()       # intervention itself failed: attribute nothing
    return set(st.failures) | set(st.observations)


def _rerun_with_fresh_memo(program):
    lib = L()
    G = lib.comp.CircuitGraphBranch
    orig = G.__dict__["add_to_graph"]
    fn = orig.__func__ if isinstance(orig, staticmethod) else orig

    def patched(graph, operation):
        common.clear_caches()
        return fn(graph, operation)
    st = Stats()
    G.add_to_graph = staticmethod(patched)
    try:
        check_program(dict(program, _fresh_memo=True), st)
    finally:
        G.add_to_graph = orig
    return set(st.failures) | set(st.observations)


def run_program_job(job):
    stats = Stats()
    L()
    try:
        if "programs" in job:
            gen = iter(job["programs"])
        else:
            gen = gen_exhaustive(job["size"], job["alphabet"], job["shard"], job["shards"])
        for program in gen:
            if _DEADLINE[0] is not None and time.time() > _DEADLINE[0]:
                stats.skip(f"time budget of the tier exhausted ({job['family']})")
                stats.notes["incomplete:" + job["family"]] = True
                break
            if "G" not in program:
                h = hashlib.blake2b(json.dumps(program["items"], sort_keys=True).encode(), digest_size=2).digest()[0]
                program["G"] = ("file", "A", "B")[h % 3]
            check_program(program, stats)
            st = program_stats(program["items"])
            if st["rel"] or st["sub"]:
                if "programs" in job:
                    stats.hashes.add(hashlib.blake2b(json.dumps(program, sort_keys=True).encode(), digest_size=8).digest())
                else:
                    stats.distinct += 1
            stats.probe["programs:" + job["family"]] += 1
    except Exception as e:  # noqa
        stats.skip("harness error: " + "".join(traceback.format_exception_only(type(e), e)).strip()[:300] +
                   " @ " + traceback.format_tb(e.__traceback__)[-1].strip()[:200])
    return stats


# ------------------------------------------------------------------------------------------------
# Enumeration of programs
# ------------------------------------------------------------------------------------------------
def op(k, q, rel=None, **kw):
    it = {"k": k, "q": list(q) if isinstance(q, (list, tuple)) else [q]}
    if rel is not None:
        it["rel"] = list(rel)
    it.update(kw)
    return it


def sub(items, reps=1, rel=None, **kw):
    it = {"k": "sub", "reps": reps, "items": items}
    if rel is not None:
        it["rel"] = list(rel)
    it.update(kw)
    return it


def alphabet(name):
    if name == "full":
        a = []
        for q in (0, 1, 2):
            a += [op("Wait", q, d=0.0, ch="ALL"), op("Wait", q, d=1.0, ch="MW"), op("Wait", q, d=2.0, ch="FL"), op("Wait", q, d=5.0, ch="ALL")]
            a += [op("Rx180", q), op("DispersiveMeasure", q)]
        a += [op("CPhase", [0, 1]), op("CPhase", [1, 2]), op("CPhase", [0, 2])]
        a += [op("Barrier", [0]), op("Barrier", [0, 1]), op("Barrier", [1, 2]), op("Barrier", [0, 2]), op("Barrier", [0, 1, 2])]
        return a
    if name == "reduced":
        a = [op("Wait", q, d=5.0, ch="ALL") for q in (0, 1)] + [op("Wait", 0, d=0.0, ch="FL")]
        a += [op("Rx180", q) for q in (0, 1, 2)] + [op("CPhase", [0, 1]), op("CPhase", [1, 2])]
        a += [op("DispersiveMeasure", 0), op("Barrier", [0, 1]), op("Barrier", [0, 1, 2])]
        return a
    raise ValueError(name)


def canonical(items):
    """qubits appear in first-occurrence order 0, 1, 2, ... (one representative per relabelling of the qubits)"""
    seen = []

    def rec(its):
        for it in its:
            if it["k"] == "sub":
                if not rec(it["items"]):
                    return False
            else:
                for q in it["q"]:
                    if q not in seen:
                        if q != len(seen):
                            return False
                        seen.append(q)
        return True
    return rec(items)


def _with_relations(items):
    """every assignment of {none} + {F,S,E} x earlier sibling to each item of one level"""
    choices = []
    for i in range(len(items)):
        choices.append([None] + [[j, t] for j in range(i) for t in "FSE"])
    for combo in itertools.product(*choices):
        out = []
        for it, rel in zip(items, combo):
            it = dict(it)
            if rel is not None:
                it["rel"] = rel
            out.append(it)
        yield out


def _gen_item(s, depth, maxdepth, alpha):
    if s == 1:
        for a in alpha:
            yield a
    if depth < maxdepth:
        for body in _gen_items(s - 1, depth + 1, maxdepth, alpha):
            for reps in (1, 2, 3):
                yield sub(body, reps)


def _gen_items(n, depth, maxdepth, alpha, shard=None, shards=None):
    """item lists of total size n (a sub-circuit counts 1 + its content), relations assigned per level"""
    if n == 0:
        yield []
        return
    ordinal = 0
    for first_size in range(1, n + 1):
        for first in _gen_item(first_size, depth, maxdepth, alpha):
            ordinal += 1
            if shard is not None and ordinal % shards != shard:
                continue
            for rest in _gen_items_norel(n - first_size, depth, maxdepth, alpha):
                yield from _with_relations([first] + rest)


def _gen_items_norel(n, depth, maxdepth, alpha):
    if n == 0:
        yield []
        return
    for first_size in range(1, n + 1):
        for first in _gen_item(first_size, depth, maxdepth, alpha):
            for rest in _gen_items_norel(n - first_size, depth, maxdepth, alpha):
                yield [first] + rest


def gen_exhaustive(size, alpha_name, shard, shards):
    alpha = alphabet(alpha_name)
    for items in _gen_items(size, 0, 2, alpha, shard, shards):
        if canonical(items):
            yield {"items": items, "post": "none"}


def family_edge():
    a, b = 0, 1
    return [
        {"items": []},
        {"items": [sub([], 1)]},
        {"items": [sub([], 3), op("Rx180", a)]},
        {"items": [op("Rx180", a), sub([], 2), op("Ry90", a)]},
        {"items": [sub([sub([], 1)], 2), op("Ry90", b)]},
        {"items": [op("Barrier", [])]},
        {"items": [op("Barrier", []), op("Rx180", a), op("Barrier", [])]},
        # the same relation link object given to two equal operations: value-equal twins
        {"items": [op("Rx180", a), op("Rx90", b, rel=[0, "F"]), op("Rx90", b, rel=[0, "F"], share=1)]},
        {"items": [op("Rx180", a), op("Wait", b, d=0.0, rel=[0, "S"]), op("Wait", b, d=0.0, rel=[0, "S"], share=1), op("Wait", b, d=0.0, rel=[0, "S"], share=1)]},
        {"items": [op("Rx180", a), sub([op("Ry90", b), op("Rx180", b)], 2, rel=[0, "F"]), sub([op("Ry90", b), op("Rx180", b)], 2, rel=[0, "F"], share=1)]},
        # a sub-circuit declared to follow an operation that is deep in the graph
        {"items": [op("Rx180", a), op("Rx90", a), sub([op("Ry90", b)], 1, rel=[1, "F"])]},
        {"items": [op("Rx180", a), op("Rx90", a), sub([op("Ry90", b)], 1, rel=[1, "S"])]},
        # the same sub-circuit object added twice / three times, with operations in between and referring to the copies
        {"items": [sub([op("Rx180", a), op("Ry90", b)], 2), {"k": "again", "of": 0}]},
        {"items": [op("Reset", a), sub([op("Rx180", a), op("DispersiveMeasure", a), sub([op("Ry90", b)], 2)], 1), op("Rx90", b), {"k": "again", "of": 1},
                   op("Hadamard", 2, rel=[3, "F"]), {"k": "again", "of": 1}, op("Hadamard", 3, rel=[1, "S"])]},
        # operations referring to a sub-circuit
        {"items": [sub([op("Wait", a, d=5.0), op("Rx180", b)], 2), op("DispersiveMeasure", 2, rel=[0, "E"]), op("Reset", 3, rel=[0, "S"])]},
        # starts before everything else / last-ending operation that is not a relation leaf
        {"items": [op("Rx180", a), op("Wait", b, d=5.0, rel=[0, "E"]), op("Rx90", b)]},
        {"items": [op("Wait", a, d=5.0), op("Rx180", b, rel=[0, "S"]), op("Rx90", b), sub([op("Wait", a, d=5.0), op("Rx180", b, rel=[0, "S"]), op("Rx90", b)], 2)]},
        # all kinds of copies inside a sub-circuit
        {"items": [sub([op("VirtualTwoQubitVacant", [a, b], d=2.0, ch="FL"), op("Barrier", [a, b], rel=[0, "S"]), op("VirtualVacant", a, d=1.0, ch="MW")], 1)]},
    ]


def family_kinds():
    """every operation kind: plain and inside a sub-circuit, in every relation to an earlier operation"""
    progs = []
    for k in ALL_KINDS:
        for inst in kind_instances(k, 0, 1, [0, 1, 2]):
            for rel in [None] + [[i, t] for i in (0, 1) for t in "FSE"]:
                it = dict(inst)
                if rel:
                    it["rel"] = rel
                progs.append({"items": [op("Reset", 2), op("Rx180", 0), it, op("Ry90", 1)]})
                progs.append({"items": [op("Rx180", 2), sub([op("Reset", 2), op("Rx180", 0), it, op("Ry90", 1)], 2)], "post": "mod"})
    return progs


def kind_instances(k, q1, q2, qall):
    if k in SQ_GLOBAL or k == "DispersiveMeasure":
        return [op(k, q1)]
    if k in SQ_FIXED:
        out = [op(k, q1, d=2.0), op(k, q1, d=0.0, ds="reg"), op(k, q1, d=1.0, ds="dyn")]
        if k != "SingleQubitOperation":
            out.append(op(k, q1, d=0.5, ch="MW"))
            out.append(op(k, q1, d=5.0, ch="FL"))
        return out
    if k in ("CPhase", "TwoQubitVirtualPhase"):
        return [op(k, [q1, q2]), op(k, [q2, q1])]
    if k == "TwoQubitOperation":
        return [op(k, [q1, q2], d=2.0), op(k, [q2, q1], d=0.0)]
    if k == "VirtualTwoQubitVacant":
        return [op(k, [q1, q2], d=2.0), op(k, [q2, q1], d=0.0), op(k, [q1, q2], d=5.0, ch="FL")]
    if k == "Barrier":
        return [op(k, qall), op(k, [q1])]
    raise ValueError(k)


def random_program(rng):
    pool = rng.choice([[5, 0, 3], [2, 7], [1, 4, 0, 6], [0]])

    def items(depth, n):
        out = []
        for _ in range(n):
            rel, share = None, None
            if out and rng.random() < 0.45:
                rel = [rng.randrange(len(out)), rng.choice("FSE")]
                cands = [j for j, o in enumerate(out) if o.get("rel")]
                if cands and rng.random() < 0.25:
                    share = rng.choice(cands)
                    rel = list(out[share]["rel"])
            subs = [j for j, o in enumerate(out) if o["k"] == "sub"]
            if subs and rng.random() < 0.06:
                out.append({"k": "again", "of": rng.choice(subs)})
                continue
            if depth < 2 and rng.random() < 0.25:
                it = sub(items(depth + 1, rng.randint(0, 3)), rng.choice([1, 1, 2, 3]), rel)
            else:
                k = rng.choice(ALL_KINDS)
                q1 = rng.choice(pool)
                q2 = rng.choice([q for q in pool if q != q1] or [q1 + 1])
                if share is not None and rng.random() < 0.7 and out[share]["k"] != "sub":
                    it = {kk: vv for kk, vv in out[share].items() if kk not in ("rel", "share")}     # a value-equal twin
                else:
                    it = dict(rng.choice(kind_instances(k, q1, q2, rng.sample(pool, rng.randint(1, len(pool))))))
                if rel:
                    it["rel"] = rel
            if share is not None:
                it["share"] = share
            out.append(it)
        return out
    return {"items": items(0, rng.randint(1, 6)), "post": rng.choice(["none", "none", "none", "mod", "mod", "modflat"]),
            "G": rng.choice(["file", "A", "B"])}



# ------------------------------------------------------------------------------------------------
# Family S: interleaved steps - add, list, add into a previously returned sub-circuit handle, list again
# ------------------------------------------------------------------------------------------------
def check_state(circ, expected, late, snaps, stats, witness, nth):
    """all clauses on the CURRENT state of a circuit.  expected: the leaf operation objects that were added so far (top-level
    operations, the leaves of returned sub-circuit copies found by the own walk when they were added, operations added into
    a returned handle); late: ids of operations added after an earlier listing; snaps: id -> (kind, qubits, duration) at add."""
    fnl = "CircuitCompositeOperation.decomposed_operations"
    top = circ._structure
    try:
        l1 = circ.operations
        l2 = circ.operations
    except Exception as e:  # noqa
        stats.fail(f"listing:raises:{exc_where(e)}:after-adding-into-returned-handle", "circuit.operations returns the listing", "DeclarativeCircuit.operations",
                   witness, "".join(traceback.format_exception_only(type(e), e)).strip()[:200], "a list")
        return
    common.clear_caches()
    stats.n["steps-listing"] += 1
    if ids(l1) != ids(l2):
        stats.fail("stable:second-listing-differs", "listing twice (nothing added in between) gives the same sequence", "DeclarativeCircuit.operations", witness,
                   {"listing_number": nth, "first": [type(o).__name__ for o in l1][:20], "second": [type(o).__name__ for o in l2][:20]}, "identical")
    cnt = collections.Counter(ids(l1))
    pos = {}
    for i, o in enumerate(l1):
        pos.setdefault(id(o), i)
    miss = [o for o in expected if cnt[id(o)] == 0]
    if miss:
        o = miss[0]
        if id(o) in late:
            cls = "added-into-returned-handle-after-a-listing" if late[id(o)] == "into" else "added-after-a-listing"
        else:
            cls = "plain-operation"
        stats.fail(f"listing-complete:leaf-missing:{cls}", "every leaf operation added so far (also into a returned sub-circuit handle, also after an earlier listing) is an entry of the listing",
                   fnl, witness, {"listing_number": nth, "missing": [snap(x) for x in miss][:5], "listing": [snap(x) for x in l1][:20]}, {"entries": len(expected)})
    if any(v > 1 for v in cnt.values()):
        stats.fail("listing-complete:leaf-duplicated", "one entry per added leaf operation", fnl, witness, {"listing_number": nth}, "once")
    exp_ids = set(ids(expected))
    foreign = [o for o in l1 if id(o) not in exp_ids]
    if foreign:
        cls = "composite-listed" if is_composite(foreign[0]) else "unknown-object"
        stats.fail(f"listing-complete:foreign-entry:{cls}", "the listing contains nothing but the added leaf operations", fnl, witness,
                   {"listing_number": nth, "entry": type(foreign[0]).__name__}, "only added leaf operations")
    for o in l1:
        sn = snaps.get(id(o))
        if sn is not None and not is_composite(o) and snap(o) != sn:
            stats.fail(f"listing-content:changed:{sn[0]}", "a listed operation has the kind, qubits and duration it was added with", fnl, witness,
                       {"listing_number": nth, "now": snap(o)}, {"added_as": sn})
            break
    parent_of = {}
    allops = own_all_ops(top, parent_of=parent_of)
    composites = [o for o in allops if is_composite(o)]
    span = {}
    for c in composites:
        ps = sorted(pos[id(o)] for o in own_leaves(c) if id(o) in pos)
        if ps:
            span[id(c)] = (ps[0], ps[-1])
            if ps != list(range(ps[0], ps[0] + len(ps))):
                stats.fail("expanded-in-place:not-contiguous:sub-circuit", "the leaf entries of one sub-circuit are one contiguous block", fnl, witness,
                           {"listing_number": nth, "positions": ps}, "contiguous")

    def first_last(o):
        if is_composite(o):
            return span.get(id(o))
        p = pos.get(id(o))
        return None if p is None else (p, p)
    for o in allops:
        link = o.relation
        ref = getattr(link, "_reference_node", None)
        me = first_last(o)
        if ref is None or me is None:
            continue
        stats.n["causal"] += 1
        rf = first_last(ref)
        if rf is None:
            if not is_composite(ref):
                stats.fail("causal:referent-not-in-listing:" + link_class(o, link, parent_of, set(), {}), "the operation a listed operation refers to is itself listed (and earlier)",
                           fnl, witness, {"listing_number": nth, "operation": type(o).__name__, "referent": type(ref).__name__}, "referent listed earlier")
            continue
        if not rf[1] < me[0]:
            stats.fail("causal:listed-before-referent:" + link_class(o, link, parent_of, set(), {}), "an operation is never listed before the operation its relation refers to",
                       fnl, witness, {"listing_number": nth, "operation": type(o).__name__, "first_position": me[0], "referent": type(ref).__name__,
                                      "referent_last_position": rf[1], "listing": [type(x).__name__ for x in l1][:20]}, "referent first")
    exp = own_leaves(top)
    if ids(exp) != ids(l1) and sorted(ids(exp)) == sorted(ids(l1)):
        stats.fail("listing-order:differs-from-breadth-first-expansion", "the listing is the in-order expansion of the breadth-first node order of the pointer tree",
                   fnl, witness, {"listing_number": nth}, None)
    for c in [top] + composites:
        layers, tree = own_layers(c._circuit_graph)
        if tree:
            check_graph(c._circuit_graph, layers, stats, witness, label=lambda n: type(getattr(n, "operation", n)).__name__)
    return l1


def run_steps(program, stats, verbose=False):
    """program: {"steps": [...], "G": ...}; steps: {"s": "add", "item": item} (item may carry "rel": [index of an earlier top-level add, type]),
    {"s": "list"}, {"s": "into", "h": k, "item": item} (k indexes circuit.composite_operations at that moment; item may carry
    "relin": type = explicit relation to the first operation of the handle).  A final listing is always made."""
    lib = L()
    gname = program.get("G", "file")
    witness = {"family": "steps", "steps": program["steps"], "G": gname}
    with global_setting(gname):
        common.clear_caches()
        circ = lib.DeclarativeCircuit()
        acq = circ.get_acquisition_strategy()
        expected, late, snaps, top_handles = [], {}, {}, []
        listings = 0

        def track(objs, how):
            for o in objs:
                expected.append(o)
                if not is_composite(o):
                    snaps[id(o)] = snap(o)
                if listings:
                    late[id(o)] = how

        def make_sub(it):
            sub_c = lib.DeclarativeCircuit(repetition_strategy=lib.FixedRepetitionStrategy(int(it.get("reps", 1))))
            build_items(lib, sub_c, it["items"], acq)
            return sub_c
        try:
            for st in program["steps"]:
                if st["s"] == "list":
                    listings += 1
                    l = check_state(circ, expected, late, snaps, stats, witness, listings)
                    if verbose:
                        print(f"  listing {listings}:", None if l is None else [snap(o) for o in l])
                elif st["s"] == "add":
                    it = st["item"]
                    rel = None
                    if it.get("rel"):
                        rel = lib.RelationLink(top_handles[it["rel"][0]], getattr(lib.RelationType, RELT[it["rel"][1]]))
                    if it["k"] == "sub":
                        ret = circ.add(make_sub(it))
                        if not is_composite(ret) or not any(ret is c for c in circ.composite_operations):
                            stats.fail("add:sub-circuit-result-is-not-a-composite-of-the-circuit", "adding a sub-circuit returns the composite that now is part of the circuit "
                                       "(it is among circuit.composite_operations)", "DeclarativeCircuit.add_sub_circuit", witness, type(ret).__name__, "composite handle")
                        top_handles.append(ret)
                        track(own_leaves(ret) if is_composite(ret) else [], "add")
                    else:
                        o = make_op(lib, it, rel, acq)
                        ret = circ.add(o)
                        top_handles.append(ret)
                        track([o], "add")
                elif st["s"] == "into":
                    comps = circ.composite_operations
                    h = comps[st["h"]]
                    it = st["item"]
                    if it["k"] == "sub":
                        new = make_sub(it).circuit_structure          # the composite itself goes into the handle (no copy is made there)
                        h.add(new)
                        track(own_leaves(new), "into")
                    else:
                        rel = None
                        if it.get("relin"):
                            first = own_nodes(h)
                            if first:
                                rel = lib.RelationLink(first[0].operation, getattr(lib.RelationType, RELT[it["relin"]]))
                        o = make_op(lib, it, rel, acq)
                        h.add(o)
                        track([o], "into")
                else:
                    raise ValueError(st["s"])
        except Exception as e:  # noqa
            stats.skip(f"step program cannot be run: {exc_where(e)}")
            return
        listings += 1
        l = check_state(circ, expected, late, snaps, stats, witness, listings)
        if verbose:
            print(f"  listing {listings} (final):", None if l is None else [snap(o) for o in l])
        stats.inputs["steps"] += 1


# alphabets of the exhaustive step enumeration
S_ADD_LEAF = [op("Rx180", 0), op("Rx180", 1), op("CPhase", [0, 1])]
S_ADD_SUB = [(sub([op("Rx180", 0)], 1), 1), (sub([op("Rx180", 0)], 2), 1), (sub([op("Rx180", 1), op("Rx90", 1)], 1), 1),
             (sub([sub([op("Ry90", 0)], 1)], 1), 2), (sub([op("Rx180", 0), sub([op("Ry90", 1)], 2)], 1), 2)]       # (item, number of composites)
S_INTO = [(op("Ry90", 0), 0), (op("Ry90", 1), 0), (op("Rx90", 0, relin="F"), 0), (sub([op("Rx90", 0)], 1), 1)]


def gen_steps(length, shard=None, shards=None):
    """every step sequence: first step adds a sub-circuit, then `length - 1` steps out of add leaf (no relation / FOLLOWED_BY the previous
    top-level add) | add sub-circuit | list | add into handle k (every handle that exists at that moment: depth 1 and 2)"""
    ordinal = [0]

    def rec(prefix, handles, ntop, remaining):
        if remaining == 0:
            yield list(prefix)
            return
        opts = []
        for a in S_ADD_LEAF:
            opts.append(({"s": "add", "item": dict(a)}, 0, 1))
            opts.append(({"s": "add", "item": dict(a, rel=[ntop - 1, "F"])}, 0, 1))
        for a, nc in S_ADD_SUB:
            opts.append(({"s": "add", "item": a}, nc, 1))
        if not prefix or prefix[-1]["s"] != "list":
            opts.append(({"s": "list"}, 0, 0))
        for k in range(handles):
            for a, nc in S_INTO:
                opts.append(({"s": "into", "h": k, "item": a}, nc, 0))
        for st, nc, nt in opts:
            if len(prefix) == 1 and shard is not None:
                ordinal[0] += 1
                if ordinal[0] % shards != shard:
                    continue
            prefix.append(st)
            yield from rec(prefix, handles + nc, ntop + nt, remaining - 1)
            prefix.pop()
    for a, nc in S_ADD_SUB:
        yield from rec([{"s": "add", "item": a}], nc, 1, length - 1)


def random_steps(rng):
    base = random_program(rng)["items"]
    steps, ncomp = [], 0

    def count(items):
        return sum(1 + count(it["items"]) for it in items if it["k"] == "sub") + sum(1 for it in items if it["k"] == "again")
    for i, it in enumerate(base):
        it = {k: v for k, v in it.items() if k != "share"}
        if it["k"] == "again":
            continue
        if it.get("rel") and it["rel"][0] >= len([s for s in steps if s["s"] == "add"]):
            it.pop("rel")
        steps.append({"s": "add", "item": it})
        if it["k"] == "sub":
            ncomp += 1 + count(it["items"])
        while rng.random() < 0.45:
            if ncomp and rng.random() < 0.65:
                k = rng.choice(ALL_KINDS + ["sub"])
                if k == "sub":
                    item = sub([dict(rng.choice(kind_instances(rng.choice(ALL_KINDS), 0, 3, [0, 3]))) for _ in range(rng.randint(0, 2))], rng.choice([1, 2]))
                    steps.append({"s": "into", "h": rng.randrange(ncomp), "item": item})
                    ncomp += 1
                else:
                    item = dict(rng.choice(kind_instances(k, rng.choice([0, 3, 5]), 7, [0, 5])))
                    if rng.random() < 0.3:
                        item["relin"] = rng.choice("FSE")
                    steps.append({"s": "into", "h": rng.randrange(ncomp), "item": item})
            else:
                steps.append({"s": "list"})
    # relations of top-level adds must point at earlier adds (indices among the add steps)
    nadd = 0
    for stp in steps:
        if stp["s"] == "add":
            if stp["item"].get("rel") and stp["item"]["rel"][0] >= nadd:
                stp["item"].pop("rel")
            nadd += 1
    return {"steps": steps, "G": rng.choice(["file", "A", "B"])}


def run_steps_job(job):
    stats = Stats()
    L()
    try:
        gen = ({"steps": s} for s in gen_steps(job["length"], job.get("shard"), job.get("shards"))) if "length" in job else iter(job["programs"])
        for program in gen:
            if _DEADLINE[0] is not None and time.time() > _DEADLINE[0] and not job.get("always"):
                stats.skip(f"time budget of the tier exhausted ({job['family']})")
                stats.notes["incomplete:" + job["family"]] = True
                break
            if "G" not in program:
                h = hashlib.blake2b(json.dumps(program["steps"], sort_keys=True).encode(), digest_size=2).digest()[0]
                program["G"] = ("file", "A", "B")[h % 3]
            run_steps(program, stats)
            kinds = [s["s"] for s in program["steps"]]
            if "into" in kinds:
                if "length" in job:
                    stats.distinct += 1
                else:
                    stats.hashes.add(hashlib.blake2b(json.dumps(program, sort_keys=True).encode(), digest_size=8).digest())
            if "into" in kinds and "list" in kinds and kinds.index("list") < len(kinds) - 1 - kinds[::-1].index("into"):
                stats.probe["steps_with_into_after_a_listing"] += 1
                if len(stats.samples) < 1:
                    stats.samples.append({"input": {"family": "steps", "steps": program["steps"], "G": program["G"]},
                                          "checked": "after EVERY listing: complete / no duplicates / nothing foreign against the objects added so far, content, in-place, causal, stable (listed twice), graph layer"})
    except Exception as e:  # noqa
        stats.skip("harness error: " + "".join(traceback.format_exception_only(type(e), e)).strip()[:300] +
                   " @ " + traceback.format_tb(e.__traceback__)[-1].strip()[:200])
    return stats


# ------------------------------------------------------------------------------------------------
# Jobs, main, replay
# ------------------------------------------------------------------------------------------------
def run_job(job):
    if job["kind"] == "tree":
        return run_tree_job(job)
    if job["kind"] == "chain":
        return run_chain_job(job)
    if job["kind"] == "steps":
        return run_steps_job(job)
    return run_program_job(job)


def chunks(lst, n):
    return [lst[i:i + n] for i in range(0, len(lst), n)]


def make_jobs(tier, seed):
    thorough = tier == "thorough"
    rng = random.Random(seed * 7919 + (1 if thorough else 0))
    jobs, plan = [], {}
    # D: near the documented depth limit (long jobs first)
    lim = DOCUMENTED_DEPTH_LIMIT
    chain = [{"family": "chain", "level": "program", "n": lim - 1, "fan": 0, "via": "channel"},
             {"family": "chain", "level": "graph-single", "n": lim - 1, "fan": 0}]
    if thorough:
        chain += [{"family": "chain", "level": "program", "n": lim - 2, "fan": 3, "via": "relation"},
                  {"family": "chain", "level": "program", "n": lim - 1, "fan": 0, "via": "relation"},
                  {"family": "chain", "level": "graph-single", "n": lim - 2, "fan": 3}]
    chain += [{"family": "chain", "level": "graph-prelinked", "n": lim - 1, "fan": 0},
              {"family": "chain", "level": "graph-prelinked", "n": lim - 2, "fan": 0},
              {"family": "chain", "level": "graph-prelinked", "n": lim - 2, "fan": 3},
              {"family": "chain", "level": "graph-prelinked", "n": lim, "fan": 0},          # beyond: recorded, not judged
              {"family": "chain", "level": "graph-prelinked", "n": lim - 1, "fan": 2},      # beyond: recorded, not judged
              {"family": "chain", "level": "program-nested", "n": 150}, {"family": "chain", "level": "program-nested", "n": 400},
              {"family": "chain", "level": "program", "n": 1200, "fan": 2, "via": "channel"},
              {"family": "chain", "level": "program", "n": 1200, "fan": 2, "via": "relation"}]
    jobs += [{"kind": "chain", "spec": sp} for sp in chain]
    plan["D"] = f"{len(chain)} chains (graph built node by node / pre-linked, programs by channel / by explicit relation) with {lim - 2}..{lim - 1} nodes in a row"
    # T: trees
    nmax = 9 if thorough else 8
    tj = tree_jobs(nmax)
    jobs += sorted(tj, key=lambda j: -j["n"])
    plan["T"] = f"every parent sequence p_k in [0,k-1] for 0..{nmax} nodes ({sum(_fact(n) for n in range(nmax + 1))} sequences) x 3 ways of building x 2 node payloads"
    # P: exhaustive programs
    shards = 48
    sizes = [(s, "full") for s in (0, 1, 2, 3)] + ([(4, "reduced")] if thorough else [])
    for size, alpha in sizes:
        k = 1 if size <= 2 else (shards if size == 3 else shards * 4)
        for sh in range(k):
            jobs.append({"kind": "program", "family": f"exhaustive size {size} ({alpha} alphabet)", "size": size, "alphabet": alpha,
                         "shard": sh if k > 1 else None, "shards": k if k > 1 else None})
    plan["P-exhaustive"] = ", ".join(f"size {s} over the {a} alphabet" for s, a in sizes)
    # P: hand-written edge programs, every kind, random
    fixed = family_edge() + family_kinds()
    for p in fixed:
        p.setdefault("post", "none")
    extra = []
    for p in fixed:
        for g in ("file", "A", "B"):
            extra.append(dict(p, G=g))
    for ch in chunks(extra, 200):
        jobs.append({"kind": "program", "family": "edge + every kind", "programs": ch})
    nrand = 120000 if thorough else 12000
    rand = [random_program(rng) for _ in range(nrand)]
    for ch in chunks(rand, 400):
        jobs.append({"kind": "program", "family": "random", "programs": ch})
    # S: interleaved steps (add / list / add into a returned handle / list)
    smax = 5 if thorough else 4
    for length in range(2, smax + 1):
        k = 1 if length <= 3 else (32 if length == 4 else 256)
        for sh in range(k):
            jobs.append({"kind": "steps", "family": f"steps length {length}", "length": length, "shard": sh if k > 1 else None, "shards": k if k > 1 else None,
                         "always": length <= 3})
    nrs = 20000 if thorough else 3000
    rs = [random_steps(rng) for _ in range(nrs)]
    for ch in chunks(rs, 250):
        jobs.append({"kind": "steps", "family": "steps random", "programs": ch})
    plan["S"] = (f"every step sequence of length 2..{smax} (first step adds one of {len(S_ADD_SUB)} sub-circuits with 1-2 composites, then add leaf [3 leaves, none / FOLLOWED_BY previous] | "
                 f"add sub-circuit | list | add one of {len(S_INTO)} items into every existing handle of circuit.composite_operations, depth 1 and 2), a final listing always; "
                 f"{nrs} random step programs over all kinds")
    jobs = _round_robin(jobs)
    plan["P-other"] = f"{len(extra)} edge / every-kind programs, {nrand} seeded random programs (<= 6 top-level items, all kinds, nesting <= 2, shared link objects, apply_modifiers / flatten)"
    return jobs, plan


def _round_robin(jobs):
    """chains first (long), then the families interleaved, so that a run cut short by the time budget covers all of them"""
    head = [j for j in jobs if j.get("always")] + [j for j in jobs if j["kind"] == "chain"]
    groups = collections.OrderedDict()
    for j in jobs:
        if j["kind"] == "chain" or j.get("always"):
            continue
        fam = "tree" if j["kind"] == "tree" else j["family"]
        groups.setdefault(fam, []).append(j)
    out = list(head)
    for grp in itertools.zip_longest(*groups.values()):
        out.extend(j for j in grp if j is not None)
    return out


def _fact(n):
    out = 1
    for i in range(2, n + 1):
        out *= i
    return out


def _init_worker(deadline):
    _DEADLINE[0] = deadline
    L()


def main(argv=None):
    args = common.parse_args(argv)
    if args.replay:
        return replay(args.replay)
    res = common.Result(PROP)
    L()
    jobs, plan = make_jobs(args.tier, args.seed)
    budget = 520.0 if args.tier == "thorough" else 50.0
    deadline = time.time() + budget
    total = Stats()
    nproc = min(16, os.cpu_count() or 1)
    ctx = mp.get_context("fork")
    with ctx.Pool(nproc, initializer=_init_worker, initargs=(deadline,)) as pool:
        for st in pool.imap_unordered(run_job, jobs, chunksize=1):
            total.merge(st)

    n = total.n
    incomplete = sorted(k for k in total.notes if k.startswith("incomplete:")) + [k for k in total.skipped if "time budget" in k]
    res.evaluations = sum(n.values())
    res.distinct = total.distinct + len(total.hashes)
    res.exhaustive = not incomplete
    res.rule = ("T: " + plan["T"] + "; D: " + plan["D"] + "; S: " + plan["S"] + "; P (build programs as JSON: add-sequences of operations and sub-circuits, relations none / FOLLOWED_BY / JOINED_START / JOINED_END "
                "to every earlier item of the same level, repetition counts 1..3, nesting <= 2, one representative per relabelling of the qubits): exhaustive " + plan["P-exhaustive"] +
                " (full alphabet, 26 leaves: Wait (d,channel) in {(0,ALL),(1,MICROWAVE),(2,FLUX),(5,ALL)}, Rx180, DispersiveMeasure on qubits 0..2, CPhase on 3 pairs, Barrier on 5 qubit sets; "
                "reduced alphabet, 11 leaves: Wait(5,ALL) on 0/1, Wait(0,FLUX) on 0, Rx180 on 0..2, CPhase 0-1 / 1-2, DispersiveMeasure 0, Barrier 0-1 / 0-1-2); " + plan["P-other"] +
                f"; global durations rotate over the repository file and two overrides {GLOBALS['A']}, {GLOBALS['B']}. 'exhaustive' refers to T and P-exhaustive within these bounds. "
                "Non-trivial = a tree with >= 3 nodes, a branching and depth >= 2, or a program with at least one relation or sub-circuit, or a near-limit chain; distinct = inputs of the duplicate-free enumerations (trees, exhaustive programs, chains) plus hand-written / random programs de-duplicated by hash.")
    res.samples = total.samples[:8]
    bound_t = plan["T"] + "; " + plan["D"]
    bound_p = (f"{total.inputs['program']} programs ({plan['P-exhaustive']}; {plan['P-other']}), every sub-circuit original also listed on its own; "
               f"{total.inputs['chain-program']} near-limit programs; tier {args.tier}, seed {args.seed}")
    res.stand_ins = [
        {"function": "CircuitGraphBranch.append_pointers_to / append_pointer_to", "contract": "the fresh nodes become the last children of the given node, no other pointer list changes, every node has its parent as only incoming pointer (model tree = the parent sequence)", "bound": bound_t, "evaluations": n["graph-pointers"]},
        {"function": "GraphBranch._update_branch_iterator", "contract": "cached layer k = nodes at depth k of the pointer tree in child order, every node exactly once; cached leaves = childless nodes in breadth-first order (entry node if alone); also on every composite of every program (layers from the own walk)", "bound": bound_t + "; plus every circuit graph of " + bound_p, "evaluations": n["graph-layers"] + n["graph-leaf-cache"]},
        {"function": "GraphBranch.update_point_leafs_to_endpoint", "contract": "exactly the childless nodes point to the end node, once each", "bound": bound_t, "evaluations": n["graph-wiring"]},
        {"function": "GraphBranch.get_branch_iterator / get_node_iterator / get_nodes_at / get_branch_depth / leaf_nodes / empty_graph", "contract": "functions of the two cache fields", "bound": bound_t, "evaluations": n["graph-observers"]},
        {"function": "DeclarativeCircuit.add / add_operation / add_sub_circuit", "contract": "clause 'exactly the operations that were added': add returns the given operation (a composite for a sub-circuit) and every returned object is the operation of exactly one node reachable from the entry node by the own pointer walk, nothing else is reachable", "bound": bound_p, "evaluations": n["add-returns"] + n["graph-holds-added"]},
        {"function": "CircuitCompositeOperation.decomposed_operations (circuit.operations)", "contract": "clause 'nothing lost, nothing duplicated': the listing contains each added leaf operation (identity; leaves of returned composites by the own walk) exactly once and nothing else", "bound": bound_p, "evaluations": n["complete"]},
        {"function": "CircuitCompositeOperation.decomposed_operations", "contract": "clause 'kind, qubits and duration unchanged': every plain entry equals its snapshot taken before add; the leaves of a sub-circuit block equal, as a multiset of (kind, qubits, duration), the operations the program added to the sub-circuit", "bound": bound_p, "evaluations": n["content"]},
        {"function": "CircuitCompositeOperation.decomposed_operations", "contract": "clause 'sub-circuits expanded in place': the leaf entries of every composite (any nesting level) are one contiguous block; the listing is the in-order expansion of the breadth-first node order of the pointer tree", "bound": bound_p, "evaluations": n["in-place"] + n["listing-order"]},
        {"function": "CircuitCompositeOperation.decomposed_operations", "contract": "clause 'never before the operation its relation refers to': for every operation and composite found by the own walk, with its link read before and after the first listing (explicit, implicit, handed-down), all entries of the referent precede all entries of the referrer; and item i added with an explicit relation to item j is listed after item j", "bound": bound_p, "evaluations": n["causal"] + n["causal-declared"]},
        {"function": "DeclarativeCircuit.operations", "contract": "clause 'listing twice gives the same sequence': same objects, same order", "bound": bound_p, "evaluations": n["stable"]},
        {"function": "DeclarativeCircuit.operations after CircuitCompositeOperation.add on a returned handle", "contract": "after EVERY listing of an interleaved step program (add, list, add an operation or a sub-circuit into a handle of circuit.composite_operations at depth 1 or 2, list): the listing contains exactly the leaf operations added so far (identity; also those added into a nested handle after an earlier listing), once each, content unchanged, composites in place, referents first, two successive listings identical, = expansion of the own walk, graph layer contract", "bound": f"{total.inputs['steps']} step programs ({plan['S']}); {total.probe['steps_with_into_after_a_listing']} of them add into a handle after a listing", "evaluations": n["steps-listing"]},
        {"function": "DeclarativeCircuit.apply_modifiers / flatten -> operations", "contract": "after the modifiers (outside the quantifier; timing-independent clauses only): listing stable, no duplicates, = leaves of the pointer tree, composites expanded in place, single-link referents first, a multi-link operation after at least one member of its group, graph layer contract; the timing-dependent reading (latest member first, acyclic, no recursion) is reported as a probe (which copies must exist is C06 / C11)", "bound": f"{total.inputs['program-after-modifiers']} of the random / every-kind programs", "evaluations": n["post-modifiers"]},
    ]
    pr = total.probe
    beyond = {k: v for k, v in total.notes.items() if k.startswith("beyond-limit")}
    res.probes = [
        {"assumption": f"documented depth limit: MAX_GRAPH_DEPTH = {DOCUMENTED_DEPTH_LIMIT} layers including the entry layer; inputs with more layers are not judged. Observed beyond the limit: {json.dumps(beyond, sort_keys=True)}", "ok": True},
        {"assumption": f"durations reported at construction equal the own duration table (kind -> global key) under the override tables ({pr['duration_at_construction_checked']} leaf operations, {pr['duration_at_construction_differs_from_own_table']} differ)", "ok": pr["duration_at_construction_differs_from_own_table"] == 0},
        {"assumption": f"the first listing replaces relation links (hand-down): {pr['links_replaced_by_listing']} operations got a new link object, {pr['links_with_referent_replaced_by_listing']} of them had a referent before (frame of the hand-down: C01 / C03, not judged here)", "ok": pr["links_with_referent_replaced_by_listing"] == 0},
        {"assumption": "sub-circuits that hold a long relation chain: " + json.dumps({k: v for k, v in total.notes.items() if k.startswith("nested-chain")}, sort_keys=True) +
                       " (a chain of about 300 or more inside a sub-circuit cannot be added at all: RecursionError in the value hash of operations during copy; such programs are counted under 'skipped', nested programs near the depth limit are not reachable)", "ok": True},
        {"assumption": "outside C02's quantifier (after apply_modifiers / flatten) the listing is still causal when every multi-link is resolved to its latest-ending member, the relations stay acyclic and circuit.operations does not hit the recursion limit. "
                       "Deviating classes (count, first witness): " + json.dumps({k: {"count": v.get("count", 1), "witness": {kk: vv for kk, vv in v["witness"].items() if kk != "family"}, "observed": v["observed"]}
                                                                                 for k, v in sorted(total.observations.items())}, default=str)[:6000],
         "ok": not total.observations},
        {"assumption": "every family produced inputs", "ok": all(total.inputs[k] > 0 for k in ("tree", "chain-graph", "chain-program", "program", "program-after-modifiers", "steps"))},
    ]
    for f in total.failures.values():
        f.pop("_size", None)
    res.failures = total.failures
    res.skipped = total.skipped
    out = res.write(args.out)
    print(f"{PROP} bounded: {out['evaluations']} evaluations, inputs {dict(total.inputs)}, {out['distinct_nontrivial']} distinct non-trivial, "
          f"{len(out['failures'])} failure keys, skipped {out['skipped']}, exhaustive {out['exhaustive']}, {out['wall_s']} s")
    for f in out["failures"]:
        print("  FAILURE", f["key"])
    harness = [k for k in out["skipped"] if k.startswith("harness error")]
    if harness or not all(total.inputs[k] > 0 for k in ("tree", "program", "steps")):
        print("HARNESS ERROR:", harness or "a family produced no input")
        return 2
    return 0


def replay(path):
    rec, a = common.load_replay(path)
    key = a.get("key") or rec.get("key") or rec.get("id") or rec.get("obligation")
    fam = a.get("family")
    print(f"replaying {key}")
    stats = Stats()
    L()
    if fam == "tree":
        print(" tree: parents", a["parents"], "build", a["build"], "node payload", a["ops"])
        check_tree(tuple(a["parents"]), a["build"], a["ops"], stats)
    elif fam == "chain":
        spec = {k: v for k, v in a.items() if k != "key"}
        print(" chain:", json.dumps(spec))
        check_chain(spec, stats, verbose=True)
    elif fam == "steps":
        program = {"steps": a["steps"], "G": a.get("G", "file")}
        print(" step program:", json.dumps(program))
        run_steps(program, stats, verbose=True)
    elif fam == "program":
        program = {"items": a["items"], "G": a.get("G", "file"), "post": a.get("post", "none")}
        print(" program:", json.dumps(program))
        check_program(program, stats, verbose=True)
    else:
        print(" unknown replay family", fam)
        return 2
    print(" failure keys now:", sorted(stats.failures))
    if stats.observations:
        print(" observations outside the quantifier (not failures):", sorted(stats.observations))
    if stats.skipped:
        print(" skipped:", stats.skipped)
    if key in stats.failures:
        f = stats.failures[key]
        print(" clause:", f["clause"])
        print(" observed:", json.dumps(f["observed"], default=str))
        print(" required:", json.dumps(f["required"], default=str))
        print(f"VIOLATION property={PROP} replay={path}")
        return 1
    print(" the recorded failure does not reproduce")
    return 0


if __name__ == "__main__":
    sys.exit(main())
