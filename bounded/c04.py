#!/usr/bin/env python
"""Bounded run-time stand-in for property C04 (a (sub-)circuit's duration spans everything it contains).

Real circuits are built through the public API from JSON "build programs"; on every composite operation of
the built circuit (the top-level structure and every nested sub-circuit) the reported `duration` is compared
with the span evaluated by an OWN evaluator:

* own BFS over `_outgoing_pointers` of the circuit graph (all nodes, not only depth 1 / leaves),
* own evaluation of the relation equations over the link FIELDS under an explicit duration table
  (`get_start_time`, `start_time`, `end_time`, `duration` of the library are never part of the oracle),
* the duration of a nested block inside the oracle is again its span (recursively).

A second evaluator models the formula presently in the library (since the fix commit: earliest start to
latest end over every node of get_node_iterator(), floor 0) and reproduces the library's schedule where a
witness class is named; a third one, built only after a deviation was found, models the FORMER formula
(earliest depth-1 start, latest relation-leaf end) so that a regression to it is named by its witness class.
Neither is ever used for a verdict.

When are times read?  Twice per circuit: (1) as built, BEFORE the first `circuit.operations`, and (2) AFTER
`circuit.operations` (whose side effect hands a sub-circuit's relation link down to its relation-less
first-level operations).  `common.clear_caches()` is called before each of the two read-outs, so that a stale
memo (property C03) is never mis-attributed.  The deep (leaf-operation) clauses are evaluated in state (2)
only, because only then nested operations report times in the frame of the enclosing circuit.

Failure keys (witness classes):
  C04:duration:last-ending-op-is-not-a-leaf            the value is exactly "latest relation-leaf end - earliest depth-1 start" (the
  C04:duration:op-starts-before-first-level-ops        formula before the fix) and a block involved has a non-leaf node ending last /
  C04:duration:<both joined by +>                      a node starting before depth 1.  Fixed in the library; names a regression.
  C04:followed-by-block:<same classes>                 the follower starts before the block's span is over, for the same reason
  C04:duration:leaf-level:<cause>, C04:followed-by-block:leaf-level:<cause>
                                                       the block-level span is met but the LEAF operations (as scheduled after
                                                       circuit.operations) stick out; cause = JOINED_END link handed down to the
                                                       first operations / a nested block with an early operation / other
  C04:duration:not-the-span:<top|nested>, C04:duration:empty-block-not-zero:*, C04:followed-by-block:starts-before-block-ended,
  C04:end_time:*, C04:DeclarativeCircuit.*             anything else (none of these occurs on the present tree)

See bounded/README.md for the command line and the output format.
"""
import os
import sys

os.environ.setdefault("MPLBACKEND", "Agg")
os.environ.setdefault("TQDM_DISABLE", "1")

import hashlib
import itertools
import json
import multiprocessing as mp
import random
import time
import traceback
import warnings

sys.path.insert(0, os.path.dirname(os.path.dirname(os.path.abspath(__file__))))
from bounded import common  # noqa: E402
from bounded import c18 as base  # noqa: E402   (program representation, operation factory, pointer walk, global settings)

PROP = "C04"
EPS = 1e-9
op, sub = base.op, base.sub
is_composite, composite_nodes = base.is_composite, base.composite_nodes
GLOBALS = base.GLOBALS          # "file" (repository configuration), "A", "B" (overrides, exact binary fractions)

CLS_A = "last-ending-op-is-not-a-leaf"
CLS_B = "op-starts-before-first-level-ops"
CLS_AB = "last-ending-op-is-not-a-leaf+op-starts-before-first-level-ops"


# ------------------------------------------------------------------------------------------------
# Building (public API).  Sub-circuits are added either through DeclarativeCircuit.add (which copies them and
# thereby drops a relation to an operation outside the copy) or - "via": "structure" - through the public
# CircuitCompositeOperation.add of the enclosing structure, which keeps the sub-circuit's own relation link.
# ------------------------------------------------------------------------------------------------
def _build_items(lib, circ, items, acq):
    added = []
    for it in items:
        rel = None
        if it.get("rel"):
            idx, t = it["rel"]
            rel = lib.RelationLink(added[idx], getattr(lib.RelationType, base.RELT[t]))
        if it["k"] == "sub":
            kw = {"repetition_strategy": lib.FixedRepetitionStrategy(int(it.get("reps", 1)))}
            if rel is not None:
                kw["relation"] = rel
            s = lib.DeclarativeCircuit(**kw)
            _build_items(lib, s, it["items"], acq)
            if it.get("via") == "structure":
                circ.circuit_structure.add(s.circuit_structure)
                added.append(s.circuit_structure)
            else:
                added.append(circ.add(s))
        else:
            added.append(circ.add(base._make_op(lib, it, rel, acq)))
    return added


def build(program):
    lib = base.L()
    if "lib" in program:
        return base.build(program)
    top = program.get("top")
    if top:
        # the circuit itself is given a relation to a free-standing operation (as a circuit that is meant to be used as a sub-circuit)
        anchor = lib.co.Wait(9, duration_strategy=lib.rd.FixedDurationStrategy(duration=float(top["d"])))
        circ = lib.DeclarativeCircuit(relation=lib.RelationLink(anchor, getattr(lib.RelationType, base.RELT[top["t"]])))
    else:
        circ = lib.DeclarativeCircuit()
    _build_items(lib, circ, program["items"], circ.get_acquisition_strategy())
    post = program.get("post", "none")
    if post in ("mod", "modflat"):
        circ = circ.apply_modifiers()
    if post in ("flat", "modflat"):
        circ = circ.flatten()
    return circ


# ------------------------------------------------------------------------------------------------
# The oracle
# ------------------------------------------------------------------------------------------------
class Ev:
    """own evaluator of the relation equations over the link fields under an explicit duration table.
    model "span": duration of a block = latest end - earliest start over ALL its nodes (the statement);
    model "lib":  the formula presently in the library (since the commit "a composite's duration spans all contained operations"):
                  running minimum of the starts and running maximum (from 0.0) of end - minimum over EVERY node of get_node_iterator(),
                  i.e. the span, floor 0.  Used to reproduce the library's schedule when a witness class is named, never for a verdict.
    model "old":  the formula the library had before that commit (earliest depth-1 start, latest relation-leaf end, floor 0).  Built
                  only after a deviation was found, to recognise a regression to it and name its witness class (a) / (b)."""

    def __init__(self, table, model):
        self.T, self.model = table, model
        self._s, self._d, self._c = {}, {}, {}

    def leaf_dur(self, o):
        s = o.duration_strategy
        n = type(s).__name__
        if n == "GlobalDurationStrategy":
            return self.T[s.key.name]
        if n == "FixedDurationStrategy":
            return s.duration
        if n == "RegistryDurationStrategy":
            return s.registry._variable_durations.get(s.registry_key, s.registry._default_duration)
        if n == "DynamicDurationStrategy":
            return s.duration_call()
        if n == "GlobalDecouplingWaitDurationStrategy":   # repetition-code library: half of (readout - microwave), floor 0
            return max(0.0, 0.5 * (self.T["READOUT"] - self.T["MICROWAVE"]))
        raise TypeError(f"unknown duration strategy {n}")

    def comp(self, c):
        k = id(c)
        if k in self._c:
            return self._c[k]
        d1, leaves, allnodes = composite_nodes(c)
        r = {"n": len(allnodes), "d1": d1, "leaves": leaves, "all": allnodes}
        if not allnodes:
            r.update(t0=None, lo=None, hi=None, hi_leaf=None, span=0.0, libdur=0.0, olddur=0.0, a=False, b=False)
        else:
            t0 = min(self.start(n.operation) for n in d1)
            lo = min(self.start(n.operation) for n in allnodes)
            hi = max(self.end(n.operation) for n in allnodes)
            hi_leaf = max(self.end(n.operation) for n in leaves)
            r.update(t0=t0, lo=lo, hi=hi, hi_leaf=hi_leaf, span=hi - lo, libdur=max(0.0, hi - lo), olddur=max(0.0, hi_leaf - t0),
                     a=hi > hi_leaf + EPS, b=lo < t0 - EPS)
        self._c[k] = r
        return r

    def dur(self, o):
        k = id(o)
        if k in self._d:
            return self._d[k]
        if is_composite(o):
            r = self.comp(o)
            v = r[{"span": "span", "lib": "libdur", "old": "olddur"}[self.model]]
        else:
            v = self.leaf_dur(o)
        self._d[k] = v
        return v

    def _ref(self, link):
        if type(link).__name__ == "MultiRelationLink":
            refs = link._reference_nodes
            if not refs:
                return None
            latest = refs[0]
            for r in refs:
                if self.end(r) > self.end(latest):
                    latest = r
            return latest
        return link._reference_node

    def start(self, o):
        k = id(o)
        if k in self._s:
            return self._s[k]
        link = o.relation
        ref = self._ref(link)
        if ref is None:
            v = 0.0
        else:
            t = link._relation_type.name
            if t == "FOLLOWED_BY":
                v = self.end(ref)
            elif t == "JOINED_START":
                v = self.start(ref)
            elif t == "JOINED_END":
                v = self.end(ref) - self.dur(o)
            else:
                raise TypeError(t)
        self._s[k] = v
        return v

    def end(self, o):
        return self.start(o) + self.dur(o)


def sub_composites(c, out=None):
    """c and every composite below it (own pointer walk)"""
    out = [c] if out is None else out
    for n in composite_nodes(c)[2]:
        if is_composite(n.operation):
            out.append(n.operation)
            sub_composites(n.operation, out)
    return out


def deep_leaves(c, out=None):
    """every non-composite operation below c (own pointer walk)"""
    out = [] if out is None else out
    for n in composite_nodes(c)[2]:
        if is_composite(n.operation):
            deep_leaves(n.operation, out)
        else:
            out.append(n.operation)
    return out


def links_cyclic(top):
    """own depth-first walk: operation -> operation(s) its link refers to, block -> its nodes; a back edge means that no schedule exists"""
    state = {}

    def visit(o):
        k = id(o)
        if state.get(k) == 1:
            return True
        if state.get(k) == 2:
            return False
        state[k] = 1
        link = o.relation
        refs = list(link._reference_nodes) if type(link).__name__ == "MultiRelationLink" else \
            ([link._reference_node] if link._reference_node is not None else [])
        if is_composite(o):
            refs = refs + [n.operation for n in composite_nodes(o)[2]]
        for r in refs:
            if visit(r):
                return True
        state[k] = 2
        return False
    return visit(top)


def involved_blocks(c):
    """c and every block whose duration can enter the schedule of c's contents: blocks below c, blocks named by links of operations
    below c (also blocks dissolved by flatten that a multi-link still names), and what those depend on (own walk over the link fields)"""
    seen, out, stack, own = set(), [], [c], c.relation
    while stack:
        o = stack.pop()
        if id(o) in seen:
            continue
        seen.add(id(o))
        link = o.relation
        if link is own:
            pass        # c's own link (also where it was handed down to c's first operations): shifts all of c alike
        elif type(link).__name__ == "MultiRelationLink":
            stack.extend(link._reference_nodes)
        elif link._reference_node is not None:
            stack.append(link._reference_node)
        if is_composite(o):
            out.append(o)
            stack.extend(n.operation for n in composite_nodes(o)[2])
    return out


def witness_class(el, c, reported, what_lib):
    """name the class of a deviation (el = evaluator of the FORMER formula): it is class (a) / (b) only if the value reported is exactly
    what the 'depth-1 start / relation-leaf end' formula gives AND that formula differs from the span because of (a) / (b) in a block
    involved.  On the present tree the library's formula is the span itself, so this names a regression to the former formula."""
    if what_lib is None or abs(reported - what_lib) > EPS:
        return None
    a = b = False
    for cc in involved_blocks(c):
        r = el.comp(cc)
        a, b = a or r["a"], b or r["b"]
    if a and b:
        return CLS_AB
    if a:
        return CLS_A
    if b:
        return CLS_B
    return None


CLS_JE = "joined-end-link-handed-down-to-first-operations"
CLS_NB = "nested-block-has-op-starting-before-its-first-level-ops"


def deep_cause(el, c, include_self, shape):
    """why can the leaf-level span differ from the block-level span?  (i) a nested block has an operation that starts before its
    depth-1 ones (the block is placed by its depth-1 operations, the early one sticks out in front), (ii) circuit.operations handed the
    JOINED_END link of a block down to its relation-less depth-1 operations (each is then end-aligned on its own)."""
    blocks = sub_composites(c)
    has_b = any(el.comp(cc)["b"] for cc in involved_blocks(c) if cc is not c)
    has_je = False
    for cc in (blocks if include_self else blocks[1:]):
        link = cc.relation
        if type(link).__name__ == "RelationLink" and link._reference_node is not None and link._relation_type.name == "JOINED_END":
            if any(n.operation.relation is link for n in composite_nodes(cc)[0]):
                has_je = True
    if has_b and has_je:
        return CLS_NB + "+" + CLS_JE
    if has_b:
        return CLS_NB
    if has_je:
        return CLS_JE
    return "other:" + shape


def shape_class(program):
    """coarse description of the input, for deviations that are none of the recorded classes"""
    if "lib" in program:
        return "library-circuit"
    st = base.program_stats(program)
    parts = ["nested" if st["sub"] else "flat"]
    if program.get("post", "none") != "none":
        parts.append(program["post"])
    return "-".join(parts)


# ------------------------------------------------------------------------------------------------
# One case = one program under one global duration setting, read in two states
# ------------------------------------------------------------------------------------------------
CLAUSES = ["duration", "duration-empty", "duration-wrapper", "duration-deep", "end_time", "followed-by-block",
           "followed-by-block-deep", "premise-false"]


class Stats:
    def __init__(self):
        self.n = {c: 0 for c in CLAUSES}
        self.cases = 0
        self.failures = {}
        self.skipped = {}
        self.hashes = set()
        self.samples = []
        self.feat = {"non_leaf_last": 0, "early_start": 0, "zero_length": 0, "nested": 0, "followed_block": 0, "handed_down": 0,
                     "multi_link": 0, "orphan_block_refs": 0, "deep_only_own_evaluator": 0, "harness_oracle_vs_lib_model": 0, "lib_model_mismatch": 0}

    def fail(self, key, clause, function, witness, observed, required):
        size = witness_size(witness)
        old = self.failures.get(key)
        if old is None or size < old["_size"]:
            self.failures[key] = {"key": key, "clause": clause, "function": function, "witness": witness,
                                  "observed": observed, "required": required, "replay_args": dict(witness, key=key),
                                  "_size": size}

    def skip(self, reason):
        self.skipped[reason] = self.skipped.get(reason, 0) + 1

    def merge(self, o):
        for c in CLAUSES:
            self.n[c] += o.n[c]
        self.cases += o.cases
        for k, f in o.failures.items():
            old = self.failures.get(k)
            if old is None or (f["_size"], json.dumps(f["witness"], sort_keys=True, default=str)) < \
                    (old["_size"], json.dumps(old["witness"], sort_keys=True, default=str)):
                self.failures[k] = f
        for k, v in o.skipped.items():
            self.skipped[k] = self.skipped.get(k, 0) + v
        self.hashes |= o.hashes
        if len(self.samples) < 8:
            self.samples.extend(o.samples[:2])
        for k, v in o.feat.items():
            self.feat[k] += v


def witness_size(witness):
    """smaller = simpler: number of items (sub-circuits count double), then extras, then the length of the JSON text"""
    prog = witness["program"]

    def count(items):
        return sum(1 if it["k"] != "sub" else 2 + count(it["items"]) for it in items)
    n = 99 if "lib" in prog else count(prog["items"])
    extra = (prog.get("post", "none") != "none") + ("top" in prog)
    return (n, extra, len(json.dumps(witness, default=str)))


def describe(o):
    if is_composite(o):
        return f"block[{len(composite_nodes(o)[2])} nodes]"
    return f"{type(o).__name__}{base.op_qubits(o)}"


def members_of(ev, r):
    return [(describe(n.operation), ev.start(n.operation), ev.end(n.operation)) for n in r["all"]]


def check_case(program, gname, stats, verbose=False):
    """builds the program under the global setting and evaluates every clause of C04; returns (#failures, nontrivial)"""
    lib = base.L()
    say = print
    witness = {"program": program, "G": gname}
    nfail = [0]

    def fail(key, clause, function, observed, required):
        if verbose:
            say("  FAIL", key, "| observed:", observed, "| required:", required)
        stats.fail(f"{PROP}:{key}", clause, function, witness, observed, required)
        nfail[0] += 1

    T = base.table_of(gname)
    nontrivial = False
    with base.global_setting(gname):
        with warnings.catch_warnings():
            warnings.simplefilter("ignore")
            circuit = build(program)
        top = circuit.circuit_structure
        shape = shape_class(program)
        if links_cyclic(top):
            raise CyclicLinks(program.get("post", "none"))
        for state in ("as-built", "after-operations-listing"):
            if state == "after-operations-listing":
                before = [(id(o), id(o.relation)) for o in base.walk_all_ops(top)]
                circuit.operations      # side effect: relation links handed down to relation-less first-level operations
                after = [(id(o), id(o.relation)) for o in base.walk_all_ops(top)]
                if before != after:
                    stats.feat["handed_down"] += 1
            common.clear_caches()
            et, el = Ev(T, "span"), Ev(T, "lib")
            old_model = []

            def eo():
                if not old_model:
                    old_model.append(Ev(T, "old"))
                return old_model[0]
            comps = sub_composites(top)
            in_circuit = {id(c) for c in comps}
            allops = base.walk_all_ops(top)
            if verbose:
                say(f" state: {state}; {len(comps)} block(s), {len(allops)} contained operation(s)")

            # ---- clause: duration == span over everything the block contains; empty -> 0 -----------------------------
            for ci, c in enumerate(comps):
                rt, rl = et.comp(c), el.comp(c)
                where = "top" if c is top else "nested"
                reported = c.duration
                if rt["n"] == 0:
                    stats.n["duration-empty"] += 1
                    if verbose:
                        say(f"  block {ci} ({where}) is empty: reported duration {reported}")
                    if reported != 0.0:
                        fail(f"duration:empty-block-not-zero:{where}", "an empty (sub-)circuit has duration 0",
                             "CircuitCompositeOperation.duration", reported, 0.0)
                    continue
                stats.n["duration"] += 1
                want = rt["span"]
                if verbose:
                    say(f"  block {ci} ({where}): reported duration {reported}; own evaluator: earliest start {rt['lo']}, latest end {rt['hi']}, "
                        f"span {want}; (depth-1 start {rt['t0']}, latest leaf end {rt['hi_leaf']}); members {members_of(et, rt)}")
                if rl["a"]:
                    stats.feat["non_leaf_last"] += 1
                if rl["b"]:
                    stats.feat["early_start"] += 1
                if abs(reported - want) > EPS:
                    cls = witness_class(eo(), c, reported, eo().comp(c)["olddur"])
                    key = f"duration:{cls}" if cls else f"duration:not-the-span:{where}"
                    fail(key, "duration of a (sub-)circuit == latest end - earliest start over all operations it contains",
                         "CircuitCompositeOperation.duration",
                         {"duration": reported, "state": state, "block": ci},
                         {"duration": want, "earliest_start": rt["lo"], "latest_end": rt["hi"], "members(start,end)": members_of(et, rt)[:8]})
                else:
                    stats.feat["harness_oracle_vs_lib_model"] += 1
                    if abs(reported - rl["libdur"]) > EPS:
                        stats.feat["lib_model_mismatch"] += 1   # (only a probe: my model of the present formula)

            # ---- clause: the circuit object reports the duration of its structure -----------------------------------
            stats.n["duration-wrapper"] += 1
            rep_c, rep_s = circuit.duration, top.duration
            if rep_c != rep_s:
                fail("DeclarativeCircuit.duration:differs-from-structure", "DeclarativeCircuit.duration is the duration of its structure",
                     "DeclarativeCircuit.duration", rep_c, rep_s)
            # start of the circuit from the relation equations of its own link (0 without relation); for JOINED_END with the duration as reported
            tl = top.relation
            ref = tl._reference_node if type(tl).__name__ == "RelationLink" else None
            if ref is None:
                want_start = 0.0
            else:
                want_start = {"FOLLOWED_BY": et.end(ref), "JOINED_START": et.start(ref), "JOINED_END": et.end(ref) - rep_s}[tl._relation_type.name]
            rep_start = circuit.start_time
            if verbose:
                say(f"  circuit: reported start {rep_start}, duration {rep_c}, end {circuit.end_time}; start required by its own relation {want_start}")
            if abs(rep_start - want_start) > EPS:
                fail("DeclarativeCircuit.start_time:not-the-start-of-its-structure", "DeclarativeCircuit.start_time is the start its relation prescribes",
                     "DeclarativeCircuit.start_time", rep_start, want_start)
            if abs(circuit.end_time - (want_start + rep_c)) > EPS:
                fail("end_time:circuit:not-start-plus-duration", "end = start + duration", "IDurationComponent.end_time",
                     circuit.end_time, want_start + rep_c)

            # ---- clause: end = start + duration for everything contained -------------------------------------------
            for o in allops:
                stats.n["end_time"] += 1
                d = o.duration if is_composite(o) else et.leaf_dur(o)
                if not is_composite(o) and d == 0.0:
                    stats.feat["zero_length"] += 1
                s_rep, e_rep = o.start_time, o.end_time
                if abs(e_rep - (s_rep + d)) > EPS:
                    fam = "block" if is_composite(o) else "operation"
                    fail(f"end_time:{fam}:not-start-plus-duration", "end = start + duration (duration of an operation from its duration strategy "
                         "under the global setting, of a block as reported)", "IDurationComponent.end_time",
                         {"op": describe(o), "start": s_rep, "end": e_rep, "state": state}, {"end": s_rep + d, "duration": d})

            # ---- clause: deep span (only when nested operations report in the frame of the enclosing circuit) ---------
            if state == "after-operations-listing":
                for ci, c in enumerate(comps):
                    lv = deep_leaves(c)
                    if not lv:
                        continue
                    stats.n["duration-deep"] += 1
                    lo = min(et.start(o) for o in lv)
                    hi = max(et.end(o) for o in lv)
                    reported = c.duration
                    if verbose:
                        say(f"  block {ci}: leaf operations (own evaluator, circuit frame) earliest start {lo}, latest end {hi}, span {hi - lo}")
                    if abs(reported - (hi - lo)) > EPS and abs(reported - et.comp(c)["span"]) <= EPS:
                        # the block-level span is met, the leaf-level span is not; a failure only if the schedule the library itself reports for the
                        # leaf operations says the same (otherwise my circuit-frame times differ from the reported ones: not C04's business)
                        lo_r = min(o.start_time for o in lv)
                        hi_r = max(o.end_time for o in lv)
                        if abs(reported - (hi_r - lo_r)) <= EPS:
                            stats.feat["deep_only_own_evaluator"] += 1
                        else:
                            cls = deep_cause(el, c, False, shape)
                            fail(f"duration:leaf-level:{cls}", "duration == latest end - earliest start over all LEAF operations contained (nested "
                                 "blocks expanded, times in the frame of the circuit, after circuit.operations)",
                                 "CircuitCompositeOperation.duration / decomposed_operations",
                                 {"duration": reported, "block": ci, "reported_leaf_span": hi_r - lo_r},
                                 {"duration": hi - lo, "earliest_start": lo, "latest_end": hi,
                                  "leaf_operations(start,end)": [(describe(o), et.start(o), et.end(o)) for o in lv][:10]})

            # ---- clause: FOLLOWED_BY a block => starts after all of the block has ended ------------------------------
            for x in allops:
                link = x.relation
                if link._relation_type.name != "FOLLOWED_BY":
                    continue
                if type(link).__name__ == "MultiRelationLink":
                    blocks = [r for r in link._reference_nodes if is_composite(r)]
                    if blocks:
                        stats.feat["multi_link"] += 1
                else:
                    blocks = [link._reference_node] if (link._reference_node is not None and is_composite(link._reference_node)) else []
                for b in blocks:
                    rb = et.comp(b)
                    if rb["n"] == 0:
                        continue
                    if id(b) not in in_circuit:
                        # a block that was dissolved by flatten (or replaced by a copy) but is still named by a link: not a block of this circuit
                        stats.feat["orphan_block_refs"] += 1
                        continue
                    stats.feat["followed_block"] += 1
                    nontrivial = True
                    if any(et.comp(cc)["b"] or el.comp(cc)["b"] for cc in sub_composites(b)):
                        # premise false: some operation of the block (at any depth) starts before the first operations of its (sub-)block;
                        # nested early operations are treated as falsifying the premise too (never demands more than the statement)
                        stats.n["premise-false"] += 1
                        if verbose:
                            say(f"  {describe(x)} FOLLOWED_BY a block in which an operation starts before the first ones: nothing required")
                        continue
                    stats.n["followed-by-block"] += 1
                    gap = x.start_time - b.start_time
                    need = rb["span"]
                    if verbose:
                        say(f"  {describe(x)} FOLLOWED_BY block: starts {gap} after the block's start; the block's operations end {need} after it")
                    if gap < need - EPS:
                        # what the model of the FORMER formula predicts for this gap (single link: the block's duration; multi-link: the
                        # latest end of the group, which a too short block duration can shift to another member)
                        cls = witness_class(eo(), b, gap, eo().start(x) - eo().start(b))
                        key = f"followed-by-block:{cls}" if cls else "followed-by-block:starts-before-block-ended"
                        fail(key, "no contained operation starts before the block's first ones => everything FOLLOWED_BY the block starts "
                             "at or after the end of all of the block's operations", "RelationLink.get_start_time / CircuitCompositeOperation.duration",
                             {"follower": describe(x), "start_minus_block_start": gap, "state": state},
                             {"at_least": need, "block_members(start,end)": members_of(et, rb)[:8]})
                    elif state == "after-operations-listing":
                        lv = deep_leaves(b)
                        first = [o for n in rb["d1"] for o in ([n.operation] if not is_composite(n.operation) else deep_leaves(n.operation))]
                        if lv and first and min(et.start(o) for o in lv) >= min(et.start(o) for o in first) - EPS:
                            stats.n["followed-by-block-deep"] += 1
                            need_deep = max(et.end(o) for o in lv) - et.start(b)
                            if gap < need_deep - EPS and max(o.end_time for o in lv) <= x.start_time + EPS:
                                stats.feat["deep_only_own_evaluator"] += 1
                            elif gap < need_deep - EPS:
                                cls = deep_cause(el, b, True, shape)
                                fail(f"followed-by-block:leaf-level:{cls}",
                                     "everything FOLLOWED_BY the block starts at or after the end of all LEAF operations of the block "
                                     "(nested blocks expanded, times in the frame of the circuit)",
                                     "decomposed_operations (link hand-down) / CircuitCompositeOperation.duration",
                                     {"follower": describe(x), "start_minus_block_start": gap},
                                     {"at_least": need_deep, "leaf_operations(start,end)": [(describe(o), et.start(o), et.end(o)) for o in lv][:10],
                                      "block_start": et.start(b)})

            if any(el.comp(c)["a"] or el.comp(c)["b"] for c in comps) or len(comps) > 1:
                nontrivial = True
            if state == "as-built" and len(stats.samples) < 2 and len(allops) >= 2:
                r = et.comp(top)
                stats.samples.append({"program": program, "G": gname, "checked": {
                    "reported_duration": circuit.duration, "own_span": r["span"], "earliest_start": r["lo"], "latest_end": r["hi"],
                    "blocks": len(comps), "operations": len(allops)}})
    common.clear_caches()
    stats.cases += 1
    return nfail[0], nontrivial


# ------------------------------------------------------------------------------------------------
# Enumeration of inputs
# ------------------------------------------------------------------------------------------------
def W(q, d, ch="ALL"):
    return op("Wait", q, d=float(d), ch=ch)


def alphabet_flat():
    """reduced alphabet of the exhaustive flat family"""
    a = [W(q, d) for q in (0, 1) for d in (0, 1, 2, 5)]
    a += [W(0, d, ch) for ch in ("MW", "FL") for d in (1, 5)]
    a += [op("Rx180", 0), op("CPhase", [0, 1]), op("CPhase", [1, 2]), op("DispersiveMeasure", 1), op("Barrier", [0, 1, 2]),
          op("Barrier", [2])]
    return a


def rel_options(j):
    return [None] + [[i, t] for i in range(j) for t in "FSE"]


def with_rel(it, rel):
    it = dict(it)
    if rel:
        it["rel"] = list(rel)
    return it


def family_flat(alpha, n):
    """every sequence of n operations over alpha, every relation (none / F / S / E) of each to each earlier one"""
    for letters in itertools.product(alpha, repeat=n):
        for rels in itertools.product(*[rel_options(j) for j in range(n)]):
            yield {"items": [with_rel(x, r) for x, r in zip(letters, rels)], "post": "none"}


# shapes of nested programs: "L" = operation, tuple = sub-circuit (possibly empty); item lists of length <= 3
def shapes(max_leaves, max_subs, max_depth):
    def level(leaves, subs, depth):
        """(items, leaves used, subs used) for every item list that fits the remaining budget"""
        def ext(prefix, lu, su):
            yield prefix, lu, su
            if len(prefix) >= 3:
                return
            if lu < leaves:
                yield from ext(prefix + ("L",), lu + 1, su)
            if depth < max_depth and su < subs:
                for inner, li, si in level(leaves - lu, subs - su - 1, depth + 1):
                    yield from ext(prefix + (inner,), lu + li, su + 1 + si)
        return list(ext((), 0, 0))
    return [items for items, lu, su in level(max_leaves, max_subs, 0) if su >= 1]


def fill_shape(shape, alpha, sub_opts):
    """every assignment of letters / relations / sub-circuit options to a shape (generator of item tuples).
    A sub-circuit added through DeclarativeCircuit.add loses a relation to an earlier item (the copy drops it), so own relations
    of sub-circuits are enumerated for the structure-level add only."""
    def fill_level(items):
        choices = []
        for j, s in enumerate(items):
            rels = rel_options(j)
            if s == "L":
                choices.append([with_rel(x, r) for x in alpha for r in rels])
            else:
                inner = list(fill_level(s))
                choices.append([dict(sub([dict(i) for i in body], reps, r), via=via)
                                for body in inner for (reps, via) in sub_opts for r in (rels if via == "structure" else [None])])
        return itertools.product(*choices)
    return fill_level(shape)


def count_subs(shape):
    return sum(1 + count_subs(x) for x in shape if x != "L")


def family_nested(alpha, sub_opts, posts, max_leaves, n_subs):
    """ALL programs whose shape has exactly n_subs sub-circuits (nesting <= 2), <= max_leaves operations, item lists of length <= 3"""
    for shape in shapes(max_leaves, n_subs, 2):
        if count_subs(shape) != n_subs:
            continue
        for items in fill_shape(shape, alpha, sub_opts):
            has_rep = _max_reps(items) > 1
            for post in posts:
                if post == "mod" and not has_rep:
                    continue        # nothing to unroll: same circuit as "none"
                yield {"items": [dict(i) for i in items], "post": post}


def _max_reps(items):
    m = 1
    for it in items:
        if it["k"] == "sub":
            m = max(m, int(it.get("reps", 1)), _max_reps(it["items"]))
    return m


def family_targeted():
    """hand-written programs for every clause / witness class named in the property"""
    P = []
    for d_long, d_short in ((10, 1), (5, 0), (2, 1)):
        for t in "FSE":
            # a long operation with a shorter successor on another channel (the last-ending operation is not a relation leaf)
            P.append({"items": [W(0, d_long), with_rel(W(1, d_short), [0, t])], "post": "none"})
            P.append({"items": [W(0, 1), W(0, d_long), with_rel(W(1, d_short), [1, t]), W(2, 1)], "post": "none"})
            # the same inside a sub-circuit that something follows
            for via in ("declarative", "structure"):
                body = [W(0, d_long), with_rel(W(1, d_short), [0, t])]
                s = dict(sub(body, 1), via=via)
                P.append({"items": [s, with_rel(W(2, 1), [0, "F"])], "post": "none"})
                P.append({"items": [s, W(0, 1)], "post": "none"})                      # implicit FOLLOWED_BY the block
                P.append({"items": [dict(sub(body, 3), via=via), W(1, 2)], "post": "mod"})
    for d in (5, 2):
        # an operation starts before the first-added ones
        P.append({"items": [W(0, 1), with_rel(W(1, d), [0, "E"])], "post": "none"})
        P.append({"items": [dict(sub([W(0, 1), with_rel(W(1, d), [0, "E"])], 1), via="structure"), with_rel(W(2, 1), [0, "F"])], "post": "none"})
        P.append({"items": [W(2, 3), dict(sub([W(0, 1), with_rel(W(1, d), [0, "E"])], 2, [0, "F"]), via="structure"), with_rel(W(2, 1), [1, "F"])],
                  "post": "mod"})
    # sub-circuits with an own relation (kept by the structure-level add), nested, followed
    for t in "FSE":
        inner = dict(sub([W(1, 1), W(1, 2), with_rel(W(0, 5), [0, "S"])], 1, [0, t]), via="structure")
        P.append({"items": [W(0, 3), inner, with_rel(op("Rx180", 2), [1, "F"])], "post": "none"})
        P.append({"items": [W(0, 3), dict(sub([W(2, 2), dict(inner, rel=[0, t])], 2, [0, t]), via="structure"), with_rel(op("CPhase", [0, 1]), [1, "F"])],
                  "post": "none"})
    # the circuit itself carries a relation (its start is not 0): DeclarativeCircuit.start_time / duration / end_time
    for t in "FSE":
        for post in ("none", "mod"):
            P.append({"items": [W(0, 2), with_rel(W(1, 1), [0, "F"]), sub([W(0, 1), W(0, 2)], 2)], "post": post, "top": {"d": 3.0, "t": t}})
        P.append({"items": [], "post": "none", "top": {"d": 3.0, "t": t}})
    # empty circuits
    P += [{"items": [], "post": "none"}, {"items": [], "post": "modflat"}, {"items": [sub([], 1)], "post": "none"},
          {"items": [sub([sub([], 2)], 1), W(0, 1)], "post": "none"}, {"items": [W(0, 2), dict(sub([], 1, [0, "F"]), via="structure")], "post": "none"},
          {"items": [W(0, 0.0)], "post": "none"}, {"items": [W(0, 0.0), W(0, 0.0)], "post": "none"}]
    return P


def family_library(thorough):
    progs = [{"lib": "repcode_simplified", "states": "01", "cycles": c, "post": p} for c in (1, 2) for p in ("none", "mod")]
    if thorough:
        progs += [{"lib": "repcode_simplified", "states": "010", "cycles": c, "post": p} for c in (0, 3, 4) for p in ("none", "mod", "modflat")]
    return progs


def random_program(rng):
    pool = rng.choice([[0, 1, 2], [2, 7], [1, 4, 0, 6]])

    def items(depth, n):
        out = []
        for _ in range(n):
            rel = None
            if out and rng.random() < 0.55:
                rel = [rng.randrange(len(out)), rng.choice("FSE")]
            if depth < 2 and rng.random() < 0.25:
                s = sub(items(depth + 1, rng.randint(0, 3)), rng.choice([1, 1, 2, 3]), rel)
                if rng.random() < 0.5:
                    s["via"] = "structure"
                out.append(s)
                continue
            k = rng.choice(base.ALL_KINDS)
            q1 = rng.choice(pool)
            q2 = rng.choice([q for q in pool if q != q1])
            inst = dict(rng.choice(base.kind_instances(k, q1, q2, rng.sample(pool, rng.randint(1, len(pool))))))
            if "d" in inst and rng.random() < 0.6:
                inst["d"] = float(rng.choice([0, 1, 2, 5]))
            if rel:
                inst["rel"] = rel
            out.append(inst)
        return out
    prog = {"items": items(0, rng.randint(2, 6)), "post": rng.choice(["none", "none", "mod", "mod", "modflat", "flat"])}
    if rng.random() < 0.15:
        prog["top"] = {"d": float(rng.choice([0, 1, 3])), "t": rng.choice("FSE")}
    return prog


def has_empty_repeated(items):
    for it in items:
        if it["k"] == "sub":
            if int(it.get("reps", 1)) != 1 and not base._has_op(it["items"]):
                return True
            if has_empty_repeated(it["items"]):
                return True
    return False


# ------------------------------------------------------------------------------------------------
# Jobs.  A task = (family, offset, stride): the worker enumerates the family itself and takes every stride-th program.
# ------------------------------------------------------------------------------------------------
_DEADLINE = [None]
_PLAN = {}


class CyclicLinks(Exception):
    pass


def run_task(task):
    tier, seed, fam, offset, stride, count = task
    stats = Stats()
    base.L()
    plan = _PLAN.get((tier, seed)) or make_plan(tier, seed)
    _PLAN[(tier, seed)] = plan
    exh, factory, desc = plan[fam]
    mine = (count - offset + stride - 1) // stride if count > offset else 0
    done = tried = 0
    for program, gname in factory(offset, stride):
        if _DEADLINE[0] is not None and time.time() > _DEADLINE[0]:
            stats.skipped[f"time budget of the tier exhausted ({fam})"] = mine - tried
            break
        tried += 1
        try:
            n, nontrivial = check_case(program, gname, stats)
            done += 1
            if nontrivial:
                stats.hashes.add(hashlib.blake2b(json.dumps([program, gname], sort_keys=True).encode(), digest_size=8).digest())
        except CyclicLinks as e:
            stats.skip(f"no schedule exists: the relation links of the built circuit form a cycle (own walk over the link fields; the library's "
                       f"own duration / start_time end in a RecursionError): post-processing '{e.args[0]}'")
            common.clear_caches()
        except Exception as e:  # noqa
            where = ""
            for fr in reversed(traceback.extract_tb(e.__traceback__)):
                if "qce_circuit" in fr.filename:
                    where = fr.name
                    break
            if where and "lib" not in program and has_empty_repeated(program["items"]):
                stats.skip(f"program cannot be built/read: repeated sub-circuit without operations ({type(e).__name__} in {where})")
            elif where:
                stats.skip(f"program cannot be built/read: {type(e).__name__} in {where}")
            else:
                stats.skip("harness error: " + "".join(traceback.format_exception_only(type(e), e)).strip()[:300] +
                           " @ " + traceback.format_tb(e.__traceback__)[-1].strip()[:200])
            common.clear_caches()
    return fam, done, stats


def make_plan(tier, seed):
    """family -> (exhaustive?, factory(offset, stride) -> generator of (program, global setting), description)"""
    thorough = tier == "thorough"
    gs_all = ["A", "file", "B"]
    af = alphabet_flat()
    plan = {}

    def strided(make_gen):
        def factory(offset=0, stride=1):
            return itertools.islice(make_gen(), offset, None, stride)
        return factory

    def cross(make_progs, gnames):
        def gen():
            for p in make_progs():
                for g in gnames:
                    yield (p, g)
        return gen

    def names(al):
        return [f"{x['k']}{x['q']}" + (f"d{x['d']:g}" if "d" in x else "") + (x["ch"] if x.get("ch", "ALL") != "ALL" else "") for x in al]

    plan["targeted"] = (True, strided(cross(family_targeted, gs_all)), "hand-written programs for every clause and witness class x 3 global settings")
    plan["library"] = (True, strided(cross(lambda: family_library(thorough), gs_all)), "repetition-code library circuits x 3 global settings")
    g_flat = gs_all if thorough else ["A"]
    for n in (1, 2, 3):
        gsn = g_flat if n == 3 else gs_all
        plan[f"flat-{n}"] = (True, strided(cross(lambda n=n: family_flat(af, n), gsn)),
                             f"ALL sequences of {n} operation(s) over the flat alphabet" + (f" = {names(af)}" if n == 1 else "") +
                             f" x every relation (none/F/S/E) of each item to every earlier item x global settings {gsn}")
    if thorough:
        a1 = [W(0, 1), W(0, 5), W(1, 0), W(1, 2), op("CPhase", [0, 1]), op("Barrier", [0, 1])]
        o1 = [(r, v) for r in (1, 2, 3) for v in ("declarative", "structure")]
        a2 = [W(0, 1), W(0, 5), W(1, 2), op("CPhase", [0, 1])]
        o2 = [(1, "declarative"), (1, "structure"), (2, "declarative"), (3, "structure")]
        posts = ["none", "mod", "modflat", "flat"]
    else:
        a1 = [W(0, 1), W(0, 5), W(1, 2)]
        o1 = [(1, "declarative"), (1, "structure"), (2, "declarative"), (3, "structure")]
        a2 = [W(0, 1), W(0, 5), W(1, 2)]
        o2 = [(1, "structure"), (2, "declarative")]
        posts = ["none", "mod", "modflat"]
    plan["nested-1"] = (True, strided(cross(lambda: family_nested(a1, o1, posts, 3, 1), ["A"])),
                        f"ALL programs with exactly 1 sub-circuit, <= 3 operations, item lists <= 3, over {names(a1)} x every relation (none/F/S/E) of every "
                        f"item (operation or structure-added sub-circuit) to every earlier item of its level x (repetitions, add mode) in {o1} x "
                        f"post-processing {posts} ('mod' only if something is repeated), setting A")
    plan["nested-2"] = (True, strided(cross(lambda: family_nested(a2, o2, posts, 2, 2), ["A"])),
                        f"ALL programs with exactly 2 sub-circuits (side by side or nested, nesting <= 2), <= 2 operations, over {names(a2)} x every "
                        f"relation x (repetitions, add mode) in {o2} x post-processing {posts}, setting A")
    nrand = 200000 if thorough else 12000

    def random_factory(offset=0, stride=1):
        rng = random.Random(f"c04-{tier}-{seed}-{offset}-{stride}")
        for _ in range((nrand - offset + stride - 1) // stride if nrand > offset else 0):
            yield (random_program(rng), rng.choice(gs_all))
    plan["random"] = (False, random_factory, f"{nrand} seeded-random programs of 2..6 items over all {len(base.ALL_KINDS)} operation kinds "
                      "(durations of fixed-duration kinds from {0, 0.5, 1, 2, 5}), nesting <= 2, sub-circuits of 0..3 items, repetitions 1..3, both add "
                      "modes, post-processing none/mod/modflat/flat, random global setting")
    plan["random"] = plan["random"] + (nrand,)
    return plan


def _init_worker(deadline):
    _DEADLINE[0] = deadline
    base.L()


def main(argv=None):
    args = common.parse_args(argv)
    if args.replay:
        return replay(args.replay)
    res = common.Result(PROP)
    base.L()
    thorough = args.tier == "thorough"
    budget = float(os.environ.get("C04_BUDGET_S") or (540.0 if thorough else 50.0))
    deadline = time.time() + budget
    plan = make_plan(args.tier, args.seed)
    _PLAN[(args.tier, args.seed)] = {k: v[:3] for k, v in plan.items()}
    total = Stats()
    fam_done, fam_exh, fam_desc, fam_count = {}, {}, {}, {}
    per_family = []
    for fam, entry in plan.items():
        exh, factory, desc = entry[:3]
        count = entry[3] if len(entry) > 3 else sum(1 for _ in factory())
        fam_done[fam], fam_exh[fam], fam_desc[fam], fam_count[fam] = 0, exh, desc, count
        stride = max(1, min(192, count // 800))
        per_family.append([(args.tier, args.seed, fam, off, stride, count) for off in range(stride)])
    # round robin over the families, so that a run cut short by the budget still covers all of them
    tasks = [t for group in itertools.zip_longest(*per_family) for t in group if t is not None]

    nproc = min(16, os.cpu_count() or 1)
    ctx = mp.get_context("fork")
    with ctx.Pool(nproc, initializer=_init_worker, initargs=(deadline,)) as pool:
        for fam, done, st in pool.imap_unordered(run_task, tasks, chunksize=1):
            fam_done[fam] += done
            total.merge(st)

    n = total.n
    cut = {k: v for k, v in total.skipped.items() if k.startswith("time budget")}
    res.evaluations = sum(v for k, v in n.items() if k != "premise-false")
    res.distinct = total.hashes
    res.exhaustive = not any(fam_exh[f] and any(f"({f})" in k for k in cut) for f in fam_exh)
    fam_txt = "; ".join(f"{f}: {fam_desc[f]} [{fam_count[f]} cases, {fam_done[f]} evaluated{'' if not any(f'({f})' in k for k in cut) else ', CUT by the time budget'}]"
                        for f in fam_done)
    res.rule = ("build programs (JSON: add-sequences of operations with relation none/FOLLOWED_BY/JOINED_START/JOINED_END to an earlier item of the same "
                "level; sub-circuits with repetition 1..3 added through DeclarativeCircuit.add (copy) or through the public CircuitCompositeOperation.add "
                "of the enclosing structure (keeps the sub-circuit's own relation); optional apply_modifiers / flatten) x global duration settings "
                f"('file' = repository configuration, A = {GLOBALS['A']}, B = {GLOBALS['B']} via temporary_override_get_registry_at). "
                "Every composite of every circuit is read twice (as built; after circuit.operations), caches cleared before each read-out. Families: "
                + fam_txt + ". 'exhaustive' refers to all families except 'random', which is sampled on top. Non-trivial = the circuit has a nested "
                "block, or an operation FOLLOWED_BY a block, or a block whose last-ending operation is not a relation leaf / with an operation starting "
                "before the depth-1 ones; distinct = distinct (program, setting).")
    res.samples = total.samples[:6]
    bound = f"{total.cases} circuits (program x global setting), two read-outs each, tier {args.tier}, seed {args.seed}"
    res.stand_ins = [
        {"function": "CircuitCompositeOperation.duration",
         "contract": "clause 'duration == latest end - earliest start over all contained operations': for the top-level structure and every nested block, "
                     "reported duration == max end - min start over ALL graph nodes (own BFS), times from the own evaluator of the relation equations, "
                     "nested blocks with their own span recursively", "bound": bound + " (per block)", "evaluations": n["duration"]},
        {"function": "CircuitCompositeOperation.duration",
         "contract": "clause 'an empty circuit has duration 0': blocks without nodes (top-level, nested, after apply_modifiers/flatten) report 0.0",
         "bound": bound + " (per empty block)", "evaluations": n["duration-empty"]},
        {"function": "CircuitCompositeOperation.duration / decomposed_operations",
         "contract": "clause 'over all operations it contains', leaf level: after circuit.operations, duration == max end - min start over all LEAF "
                     "operations below the block (nested blocks expanded), own evaluator in the frame of the circuit; a deviation counts only if "
                     "the leaf schedule reported by the library (fresh memos) deviates from the reported duration as well",
         "bound": bound + " (per block with operations, second read-out)", "evaluations": n["duration-deep"]},
        {"function": "DeclarativeCircuit.duration / start_time / end_time",
         "contract": "the circuit object reports the duration of its structure, the start its own relation prescribes (own evaluator; 0 without "
                     "relation; circuits with a FOLLOWED_BY / JOINED_START / JOINED_END relation to a free-standing operation are in the targeted and "
                     "random families) and end = start + duration", "bound": bound + " (per read-out)",
         "evaluations": n["duration-wrapper"]},
        {"function": "IDurationComponent.end_time",
         "contract": "mechanism 'end = start + duration': for every contained operation (duration from its strategy under the explicit table) and every "
                     "nested block (duration as reported)", "bound": bound + " (per operation / block)", "evaluations": n["end_time"]},
        {"function": "RelationLink.get_start_time o CircuitCompositeOperation.duration",
         "contract": "consequence clause: for every operation or block X whose link is FOLLOWED_BY a non-empty block B (explicit, implicit by channel, "
                     "handed down, or member of a multi-link group), B being a block of the circuit, and neither B nor a block below it has a node "
                     "starting before its depth-1 nodes: reported start(X) - reported start(B) >= own span(B); premise false in "
                     f"{n['premise-false']} further cases (nothing required)",
         "bound": bound + " (per follower)", "evaluations": n["followed-by-block"]},
        {"function": "RelationLink.get_start_time o decomposed_operations",
         "contract": "consequence clause at leaf level (second read-out): start(X) - start(B) >= latest end over all LEAF operations below B - start(B) in "
                     "the frame of the circuit (own evaluator), when no leaf operation of B starts before those of B's depth-1 nodes; a deviation "
                     "counts only if the reported leaf schedule shows a leaf operation of B ending after the reported start of X as well",
         "bound": bound + " (per follower)", "evaluations": n["followed-by-block-deep"]},
    ]
    ft = total.feat
    res.probes = [
        {"assumption": f"the enumeration really contains the witness shapes named in the quantifier: blocks whose last-ending node is not a relation leaf "
                       f"({ft['non_leaf_last']} block read-outs), blocks with a node starting before the depth-1 nodes ({ft['early_start']}), zero-length "
                       f"operations ({ft['zero_length']} operation read-outs), followers of blocks ({ft['followed_block']}), multi-links onto blocks "
                       f"({ft['multi_link']}), circuits whose links were re-written by circuit.operations ({ft['handed_down']})",
         "ok": min(ft["non_leaf_last"], ft["early_start"], ft["zero_length"], ft["followed_block"]) > 0},
        {"assumption": f"wherever the reported duration equals the span, it also equals my model of the formula presently in the library (running "
                       f"minimum of starts / maximum of ends over every node, floor 0), which is used only where witness classes are named ({ft['harness_oracle_vs_lib_model']} agreeing read-outs, "
                       f"{ft['lib_model_mismatch']} where the model differs)", "ok": ft["lib_model_mismatch"] == 0},
        {"assumption": "times are read with fresh start-time memos (common.clear_caches before each of the two read-outs)", "ok": True},
        {"assumption": f"links that name a block which is no longer part of the circuit (dissolved by flatten, still named by a multi-link) are not "
                       f"treated as 'FOLLOWED_BY the block' ({ft['orphan_block_refs']} such references seen); leaf-level deviations seen by the own evaluator "
                       f"only, not in the reported leaf schedule, are not failures ({ft['deep_only_own_evaluator']} seen)", "ok": True},
    ]
    for f in total.failures.values():
        f.pop("_size", None)
    res.failures = total.failures
    res.skipped = total.skipped
    out = res.write(args.out)
    print(f"{PROP} bounded: {out['evaluations']} evaluations on {total.cases} circuits, {out['distinct_nontrivial']} distinct non-trivial, "
          f"{len(out['failures'])} failure keys, exhaustive={out['exhaustive']}, {out['wall_s']} s")
    for k, v in out["skipped"].items():
        print("  skipped", v, k)
    for f in out["failures"]:
        print("  FAILURE", f["key"])
    harness = [k for k in out["skipped"] if k.startswith("harness error")]
    if harness or total.cases == 0:
        print("HARNESS ERROR:", harness or "no case was evaluated")
        return 2
    return 0


def replay(path):
    rec, a = common.load_replay(path)
    key = a.get("key") or rec.get("key") or rec.get("id") or rec.get("obligation")
    program, gname = a["program"], a.get("G", "file")
    print(f"replaying {key}")
    print(" program:", json.dumps(program))
    print(" global durations:", gname, base.table_of(gname) if base.L() else None)
    stats = Stats()
    try:
        check_case(program, gname, stats, verbose=True)
    except CyclicLinks:
        print(" the relation links of the built circuit form a cycle: no schedule exists, nothing to evaluate")
    print(" failure keys now:", sorted(stats.failures))
    if key in stats.failures:
        f = stats.failures[key]
        print(" observed:", json.dumps(f["observed"], default=str))
        print(" required:", json.dumps(f["required"], default=str))
        print(f"VIOLATION property={PROP} replay={path}")
        return 1
    print(" the recorded failure does not reproduce")
    return 0


if __name__ == "__main__":
    sys.exit(main())
