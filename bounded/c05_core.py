"""Core pieces of the bounded stand-in for property C05 (copies are faithful and independent).

* building real circuits from JSON build programs through the public API (every operation class of
  structure/circuit_operations.py and addon_stim/circuit_operations.py, every relation type, shared link
  instances, multi links, fixed / registry / dynamic durations, acquisition tags, nested repeated sub-circuits)
* an own walk over the graph pointer fields, an own evaluator of the relation equations over the link FIELDS
  (never calls get_start_time / start_time), with the hand-down of a sub-circuit's link evaluated virtually
* run-time monitors around the real copy() / repeat() functions (observation only) and the comparison of every
  copy with its source, written from the property statement
"""
import os
import sys
import dataclasses
import warnings
import contextlib

os.environ.setdefault("MPLBACKEND", "Agg")
os.environ.setdefault("TQDM_DISABLE", "1")

sys.path.insert(0, os.path.dirname(os.path.dirname(os.path.abspath(__file__))))
from bounded import common  # noqa: E402

PROP = "C05"
EPS = 1e-9

GLOBALS = {
    "file": None,  # whatever the repository's configuration file says (no override)
    "A": {"READOUT": 5.0, "MICROWAVE": 3.0, "FLUX": 4.0, "RESET": 7.0},
    "B": {"READOUT": 1.0, "MICROWAVE": 0.5, "FLUX": 0.25, "RESET": 1.5},
}

SQ_GLOBAL = ["Reset", "Identity", "Hadamard", "Rx180", "Rx90", "Rxm90", "Ry180", "Ry90", "Rym90", "Rx180ef",
             "VirtualPhase", "Rphi90", "VirtualPark"]
SQ_FIXED = ["Wait", "SingleQubitOperation", "VirtualVacant", "VirtualEmpty"]
TQ_GLOBAL = ["CPhase", "TwoQubitVirtualPhase"]
TQ_FIXED = ["TwoQubitOperation", "VirtualTwoQubitVacant"]
STIM_KINDS = ["DetectorOperation", "LogicalObservableOperation", "CoordinateShiftOperation"]
ALL_KINDS = SQ_GLOBAL + SQ_FIXED + TQ_GLOBAL + TQ_FIXED + ["DispersiveMeasure", "Barrier"] + STIM_KINDS

CH = {"ALL": "ALL", "MW": "MICROWAVE", "FL": "FLUX", "RO": "READOUT"}
RELT = {"F": "FOLLOWED_BY", "S": "JOINED_START", "E": "JOINED_END"}
DET_ARGS = ["last_acquisition_index", "main_target", "secondary_target", "reference_offset", "secondary_offset"]


# ------------------------------------------------------------------------------------------------
# Library access
# ------------------------------------------------------------------------------------------------
class _L:
    ready = False


def L():
    if _L.ready:
        return _L
    warnings.simplefilter("ignore")
    from qce_circuit.language.declarative_circuit import DeclarativeCircuit
    from qce_circuit.structure import circuit_operations as co
    from qce_circuit.addon_stim import circuit_operations as so
    from qce_circuit.structure import registry_duration as rd
    from qce_circuit.structure import registry_repetition as rr
    from qce_circuit.structure import registry_acquisition as ra
    from qce_circuit.structure import intrf_circuit_operation as ico
    from qce_circuit.structure import intrf_circuit_operation_composite as icc
    _L.DeclarativeCircuit = DeclarativeCircuit
    _L.co, _L.so, _L.rd, _L.rr, _L.ra, _L.ico, _L.icc = co, so, rd, rr, ra, ico, icc
    _L.RelationLink, _L.MultiRelationLink = ico.RelationLink, ico.MultiRelationLink
    _L.RelationType, _L.MultiRelationType, _L.QubitChannel = ico.RelationType, ico.MultiRelationType, ico.QubitChannel
    _L.Composite = icc.CircuitCompositeOperation
    warnings.simplefilter("ignore")  # the library installs its own filters at import time
    _L.ready = True
    install_monitors()
    return _L


def table_of(gname):
    lib = L()
    if GLOBALS[gname] is not None:
        return dict(GLOBALS[gname])
    reg = lib.rd.GlobalDurationRegistryManager.read_config()._global_registry
    return {k.name: float(reg[k.value]) for k in lib.rd.GlobalRegistryKey}


@contextlib.contextmanager
def global_setting(gname):
    lib = L()
    if GLOBALS[gname] is None:
        yield
        return
    tab = {getattr(lib.rd.GlobalRegistryKey, k): v for k, v in GLOBALS[gname].items()}
    with lib.rd.temporary_override_get_registry_at(tab):
        yield


# ------------------------------------------------------------------------------------------------
# Build programs
# ------------------------------------------------------------------------------------------------
class Env:
    """registries and cells behind registry / dynamic strategies of one built case (so that they can be changed later)"""

    def __init__(self):
        lib = L()
        self.dreg = lib.rd.DurationRegistry()
        self.rreg = lib.rr.RepetitionRegistry()
        self.dyn = {}       # name -> [value]
        self.dreg_keys = {}  # key -> value
        self.links = {}     # id(added object) -> link instance it was constructed with

    def duration_strategy(self, it):
        lib = L()
        d = float(it.get("d", 0.0))
        src = it.get("src", "fixed")
        if src == "fixed":
            return lib.rd.FixedDurationStrategy(duration=d)
        if src == "reg":
            key = f"k{d}"
            self.dreg.set_registry_at(key, d)
            self.dreg_keys[key] = d
            return lib.rd.RegistryDurationStrategy(registry=self.dreg, registry_key=key)
        if src == "dyn":
            cell = self.dyn.setdefault(f"c{d}", [d])
            return lib.rd.DynamicDurationStrategy(duration_call=lambda c=cell: c[0])
        raise ValueError(src)

    def flip(self):
        """change every registry / dynamic duration (exact binary fractions)"""
        for key, v in self.dreg_keys.items():
            self.dreg.set_registry_at(key, v + 1.5)
        for cell in self.dyn.values():
            cell[0] = cell[0] + 2.25
        return bool(self.dreg_keys or self.dyn)

    def repetition_strategy(self, it):
        lib = L()
        n = int(it.get("reps", 1))
        if it.get("rsrc", "fixed") == "reg":
            key = f"r{n}"
            self.rreg.set_registry_at(key, n)
            return lib.rr.RegistryRepetitionStrategy(registry=self.rreg, registry_key=key)
        return lib.rr.FixedRepetitionStrategy(n)


def make_link(lib, env, it, added):
    """the relation link an item asks for (None = library default)"""
    if "link_of" in it:                       # the very same link INSTANCE as an earlier item (value-equal twins)
        return env.links[id(added[int(it["link_of"])])]
    rel = it.get("rel")
    if not rel:
        return None
    if isinstance(rel, dict):                 # multi link built by the user
        refs = [added[int(i)] for i in rel["multi"]]
        return lib.MultiRelationLink(_reference_nodes=refs,
                                     _relation_to_group=getattr(lib.MultiRelationType, rel.get("g", "LATEST")),
                                     _relation_type=getattr(lib.RelationType, RELT[rel.get("t", "F")]))
    idx, t = rel
    return lib.RelationLink(added[int(idx)], getattr(lib.RelationType, RELT[t]))


def make_op(lib, env, it, link, circ, top):
    k, q = it["k"], it["q"]
    co, so = lib.co, lib.so
    kw = {}
    if link is not None:
        kw["relation"] = link
    if k in SQ_GLOBAL:
        return getattr(co, k)(q[0], **kw)
    if k in SQ_FIXED:
        kw["duration_strategy"] = env.duration_strategy(it)
        if k != "SingleQubitOperation":
            kw["qubit_channel"] = getattr(lib.QubitChannel, CH[it.get("ch", "ALL")])
        return getattr(co, k)(q[0], **kw)
    if k in TQ_GLOBAL:
        return getattr(co, k)(q[0], q[1], **kw)
    if k == "TwoQubitOperation":
        kw["duration_strategy"] = env.duration_strategy(it)
        return co.TwoQubitOperation(q[0], q[1], **kw)
    if k == "VirtualTwoQubitVacant":
        kw["duration_strategy"] = env.duration_strategy(it)
        kw["qubit_channel"] = getattr(lib.QubitChannel, CH[it.get("ch", "ALL")])
        return co.VirtualTwoQubitVacant(q[0], q[1], **kw)
    if k == "DispersiveMeasure":
        acq = (top if it.get("acq", "own") == "top" else circ).get_acquisition_strategy()
        return co.DispersiveMeasure(q[0], acquisition_strategy=acq, acquisition_tag=it.get("tag", ""), **kw)
    if k == "Barrier":
        op = co.Barrier(list(q))
        if link is not None:
            op.relation_link = link        # `relation` is not a constructor argument of Barrier
        return op
    if k == "CoordinateShiftOperation":
        op = so.CoordinateShiftOperation(list(q), time_shift=int(it.get("ts", 0)), space_shift=int(it.get("ss", 0)))
        if link is not None:
            op.relation_link = link
        return op
    if k == "DetectorOperation":
        args = dict(zip(DET_ARGS, it.get("args", [None] * 5)))
        return so.DetectorOperation(q[0], **args, **kw)
    if k == "LogicalObservableOperation":
        args = dict(zip(DET_ARGS[:2], it.get("args", [None] * 2)))
        return so.LogicalObservableOperation(q[0], **args, **kw)
    raise ValueError(f"unknown kind {k}")


def build_items(lib, env, circ, items, top, added=None):
    """adds the items to `circ`; returns the added objects (as returned by add)"""
    added = [] if added is None else added
    for it in items:
        link = make_link(lib, env, it, added)
        if it["k"] == "sub":
            kw = {"repetition_strategy": env.repetition_strategy(it)}
            if link is not None:
                kw["relation"] = link
            sub = lib.DeclarativeCircuit(**kw)
            build_items(lib, env, sub, it["items"], top)
            if it.get("read"):
                _ = sub.operations
            obj = circ.add(sub.circuit_structure if it.get("via") == "structure" else sub)
            for extra in it.get("then", []):       # operations added to the nested copy after nesting
                obj.add(make_op(lib, env, extra, None, circ, top))
        else:
            obj = circ.add(make_op(lib, env, it, link, circ, top))
        if link is not None:
            env.links[id(obj)] = link
        added.append(obj)
    return added


def build_library(program):
    lib = L()
    from qce_circuit.language.intrf_declarative_circuit import InitialStateEnum, InitialStateContainer
    from qce_circuit.library.repetition_code import circuit_constructors as cc
    states = {"0": InitialStateEnum.ZERO, "1": InitialStateEnum.ONE, "+": InitialStateEnum.PLUS, "-": InitialStateEnum.MINUS}
    init = InitialStateContainer.from_ordered_list([states[c] for c in program["states"]])
    fn = {"repcode": cc.construct_repetition_code_circuit, "repcode_simplified": cc.construct_repetition_code_circuit_simplified}[program["lib"]]
    _ = lib
    return fn(initial_state=init, qec_cycles=int(program["cycles"]))


def program_stats(program):
    st = {"ops": 0, "rel": 0, "sub": 0, "rep": 0, "kinds": set()}
    if "lib" in program:
        st.update(ops=10, rel=1, sub=1, rep=1)
        return st

    def rec(items):
        for it in items:
            if it.get("rel") or "link_of" in it:
                st["rel"] += 1
            if it["k"] == "sub":
                st["sub"] += 1
                if int(it.get("reps", 1)) != 1:
                    st["rep"] += 1
                rec(it["items"])
            else:
                st["ops"] += 1
                st["kinds"].add(it["k"])
    rec(program["items"])
    return st


# ------------------------------------------------------------------------------------------------
# Own walk over the pointer fields
# ------------------------------------------------------------------------------------------------
def is_comp(op):
    return hasattr(op, "_circuit_graph")


def graph_parts(comp):
    """(all nodes in breadth-first order, depth-1 nodes, leaf nodes) from the pointer fields"""
    g = comp._circuit_graph
    root, end = g._entrypoint_node, g._endpoint_node
    depth1 = [n for n in root._outgoing_pointers if n is not end]
    out, leaves, seen = [], [], set()
    frontier = list(depth1)
    while frontier:
        nxt = []
        for n in frontier:
            if id(n) in seen:
                continue
            seen.add(id(n))
            out.append(n)
            succ = [m for m in n._outgoing_pointers if m is not end]
            if not succ:
                leaves.append(n)
            nxt.extend(succ)
        frontier = nxt
    return out, depth1, leaves


def walk(root):
    """[(operation, enclosing composite)]: nodes of a composite in breadth-first order, each composite followed by its own walk"""
    out = []

    def rec(comp):
        for n in graph_parts(comp)[0]:
            out.append((n.operation, comp))
            if is_comp(n.operation):
                rec(n.operation)
    rec(root)
    return out


def flat_leaves(root):
    return [o for o, _ in walk(root) if not is_comp(o)]


def op_qubits(op):
    if hasattr(op, "qubit_indices"):
        return list(op.qubit_indices)
    if hasattr(op, "control_qubit_index"):
        return [op.control_qubit_index, op.target_qubit_index]
    if hasattr(op, "qubit_index"):
        return [op.qubit_index]
    return None


def op_channels(op):
    return [(ci._id, ci._channel.name) for ci in op.channel_identifiers]


def link_refs(link):
    """(kind, list of referenced operations)"""
    if type(link).__name__ == "MultiRelationLink":
        return "multi", list(link._reference_nodes)
    r = link._reference_node
    return "single", ([] if r is None else [r])


# ------------------------------------------------------------------------------------------------
# Own evaluator of the relation equations (frame of `root`; hand-down of a sub-circuit's link evaluated virtually)
# ------------------------------------------------------------------------------------------------
class Evaluator:
    def __init__(self, root, listing=None):
        self.root = root
        listing = walk(root) if listing is None else listing
        self.parent = {id(o): p for o, p in listing}
        self._s, self._d = {}, {}
        self._busy = set()
        self.cyclic = False

    def eff_link(self, op):
        """the link that places `op`: its own, or (none / handed down) the one of the enclosing composite; None = frame origin"""
        link = op.relation
        p = self.parent.get(id(op))
        kind, refs = link_refs(link)
        if p is not None and link is p.relation:      # handed down by decomposed_operations()
            return None if p is self.root else self.eff_link(p)
        if refs:
            return link
        if p is None or p is self.root or op is self.root:
            return None
        return self.eff_link(p)

    def dur(self, op):
        k = id(op)
        if k in self._d:
            return self._d[k]
        if is_comp(op):
            # a circuit's duration spans everything it contains (statement of C04): earliest start .. latest end over ALL its nodes,
            # independent of where in the graph an operation hangs
            nodes = graph_parts(op)[0]
            if not nodes:
                v = 0.0
            else:
                rel = min(self.start(n.operation) for n in nodes)
                v = 0.0
                for n in nodes:
                    delta = self.end(n.operation) - rel
                    if delta > v:
                        v = delta
        else:
            v = op.duration     # duration strategy of a leaf operation (no relation code involved)
        self._d[k] = v
        return v

    def start(self, op):
        k = id(op)
        if k in self._s:
            return self._s[k]
        if k in self._busy:
            self.cyclic = True
            return 0.0
        self._busy.add(k)
        try:
            link = op is not self.root and self.eff_link(op) or None
            if link is None:
                v = 0.0
            else:
                kind, refs = link_refs(link)
                ref = refs[0]
                if kind == "multi":
                    for r in refs:
                        if self.end(r) > self.end(ref):
                            ref = r
                t = link._relation_type.name
                if t == "FOLLOWED_BY":
                    v = self.end(ref)
                elif t == "JOINED_START":
                    v = self.start(ref)
                elif t == "JOINED_END":
                    v = self.end(ref) - self.dur(op)
                else:
                    raise TypeError(t)
        finally:
            self._busy.discard(k)
        self._s[k] = v
        return v

    def end(self, op):
        return self.start(op) + self.dur(op)

    def relative(self, ops):
        """[(start - earliest start, duration)] of the given operations"""
        st = [self.start(o) for o in ops]
        m = min(st) if st else 0.0
        return [(s - m, self.dur(o)) for s, o in zip(st, ops)]


def close_seq(a, b):
    return len(a) == len(b) and all(abs(x[0] - y[0]) <= EPS and abs(x[1] - y[1]) <= EPS for x, y in zip(a, b))


# ------------------------------------------------------------------------------------------------
# Comparison of a copy with its source (written from the property statement)
# ------------------------------------------------------------------------------------------------
SKIP_FIELDS = {"relation", "duration_strategy", "acquisition_strategy", "_acquisition_identifier", "_circuit_graph",
               "repetition_strategy", "qubit_index", "control_qubit_index", "target_qubit_index", "qubit_indices",
               "acquisition_tag", "qubit_channel"}   # qubit_channel is judged through channel_identifiers


def value_equal(a, b):
    try:
        return a is not b and a == b and hash(a) == hash(b)
    except Exception:  # noqa
        return False


def was_read(comp):
    return comp is not None and any(x is comp for x in Mon.read)


def twin_origin(x, r, par, root):
    """HOW two distinct operations became value-equal on this input (they can only be equal through one shared link instance)"""
    lx, lr_ = x.relation, r.relation
    if lx is not lr_:
        return "value-equal-links-of-different-instances"
    px, pr = par.get(id(x), root if x is not root else None), par.get(id(r), root if r is not root else None)
    handed = [p for p in (px, pr) if p is not None and lx is p.relation]
    # the shared instance is the link of an enclosing composite: decomposed_operations() of that composite hands it down -- if it ran
    if handed and any(was_read(p) for p in handed):
        return "after-operations-read"
    kind, refs = link_refs(lx)
    if kind == "multi":
        return "after-unroll(shared-multi-link)"
    if refs:
        return "user-shared-link-instance"
    return "fresh-build(no-read,no-shared-link)"


def drops_link(op):
    """unit probe: does this operation's own copy() lose a link whose references are all in the lookup? (sub-circuits are not probed)"""
    if is_comp(op):
        return False
    refs = link_refs(op.relation)[1]
    if not refs:
        return False
    try:
        c = op.copy({r: r for r in refs})
        return not link_refs(c.relation)[1]
    except Exception:  # noqa
        return False


def norm_link(op, parent):
    link = op.relation
    kind, refs = link_refs(link)
    if not refs:
        return ("none",)
    if parent is not None and link is parent.relation:
        return ("inherit",)
    if kind == "multi":
        return ("multi", link._relation_to_group.name, link._relation_type.name, refs)
    return ("single", link._relation_type.name, refs[0])


def show_link(nl, index_of):
    if nl[0] in ("none", "inherit"):
        return nl[0]
    refs = nl[-1] if nl[0] == "multi" else [nl[-1]]
    return {"kind": nl[0], "type": nl[-2], "group": nl[1] if nl[0] == "multi" else None,
            "refs": [index_of.get(id(r), f"<{type(r).__name__} outside>") for r in refs]}


def stim_repr(op):
    try:
        return str(op.to_stim_instruction())
    except Exception as e:  # noqa
        return f"raises {type(e).__name__}"


class Counters:
    NAMES = ["copy-events", "op-pairs", "field-checks", "relation-checks", "sequence-checks", "schedule-evaluated",
             "schedule-reported", "repeat-blocks", "acquisition", "independence", "objects-disjoint", "durations-after-change",
             "external-references", "derived-not-reported", "positional-fallback"]

    def __init__(self):
        self.n = {k: 0 for k in self.NAMES}
        self.classes = set()

    def merge(self, o):
        for k in self.NAMES:
            self.n[k] += o.n[k]
        self.classes |= o.classes


def compare_copy(src, res, pairs, cnt):
    """deviations of the copy `res` from its source `src`; `pairs` = (operation, its copy) as handed out by the copy() calls"""
    lib = L()
    devs = []

    def dev(K, attr, pos, observed, required, derived=False):
        devs.append({"K": K, "attr": attr, "pos": pos, "observed": observed, "required": required, "derived": derived})

    cnt.n["copy-events"] += 1
    ls, lr = walk(src), walk(res)
    M = {id(o): c for o, c in pairs}
    M[id(src)] = res
    if any(id(o) not in M for o, _ in ls):
        # some operation was not copied through copy(): fall back to positions in the listings
        cnt.n["positional-fallback"] += 1
        if len(ls) == len(lr):
            for (o, _), (c, _) in zip(ls, lr):
                M.setdefault(id(o), c)
    par_s = {id(o): p for o, p in ls}
    idx_s = {id(o): i for i, (o, _) in enumerate(ls)}
    idx_r = {id(c): i for i, (c, _) in enumerate(lr)}
    idx_s[id(src)] = "root"
    idx_r[id(res)] = "root"

    # --- the copy is a new composite; no operation object is shared --------------------------------------------------
    cnt.n["objects-disjoint"] += 1
    if res is src:
        dev("CircuitCompositeOperation", "result-is-the-original", "root", "same object", "a new object")
    ids_src = set(idx_s) | {id(src)}
    for i, (c, _) in enumerate(lr):
        if id(c) in ids_src:
            dev(type(c).__name__, "shared-operation-object", i, "object of the original listed in the copy", "a new object")
            break

    # --- the copied circuit itself: same repetition count (its own relation to the outside is not an internal relation) -------
    cnt.n["field-checks"] += 1
    if is_comp(res) and res.nr_of_repetitions != src.nr_of_repetitions:
        dev("CircuitCompositeOperation", "repetitions", "root", res.nr_of_repetitions, src.nr_of_repetitions)

    # --- per operation -----------------------------------------------------------------------------------------------
    channels_changed = False
    for i, (o, p) in enumerate(ls):
        c = M.get(id(o))
        if c is None:
            continue
        cnt.n["op-pairs"] += 1
        K = type(o).__name__
        cnt.classes.add(K)
        pc = next((q for cc, q in lr if cc is c), None)
        if type(c) is not type(o):
            dev(K, "kind", i, type(c).__name__, K)
            continue
        cnt.n["field-checks"] += 1
        if op_qubits(c) != op_qubits(o):
            dev(K, "qubits", i, op_qubits(c), op_qubits(o))
        if not is_comp(o) and op_channels(c) != op_channels(o):     # a composite's channels follow from its (checked) operations
            channels_changed = True
            dev(K, "channels", i, op_channels(c), op_channels(o))
        if is_comp(o):
            if c.nr_of_repetitions != o.nr_of_repetitions:
                dev(K, "repetitions", i, c.nr_of_repetitions, o.nr_of_repetitions)
        else:
            if c.duration != o.duration:
                dev(K, "duration", i, c.duration, o.duration)
        if hasattr(o, "acquisition_tag"):
            got = (c.acquisition_tag, c.acquisition_identifier.tag, c.acquisition_identifier.qubit_index)
            want = (o.acquisition_tag, o.acquisition_identifier.tag, o.acquisition_identifier.qubit_index)
            if got != want:
                dev(K, "acquisition-tag", i, got, want)
        for f in dataclasses.fields(o):
            if f.name in SKIP_FIELDS:
                continue
            if getattr(c, f.name) != getattr(o, f.name):
                dev(K, f"field-{f.name}", i, repr(getattr(c, f.name)), repr(getattr(o, f.name)))
        if hasattr(o, "to_stim_instruction"):
            if stim_repr(c) != stim_repr(o):
                dev(K, "stim-instruction", i, stim_repr(c), stim_repr(o))

        # relation: same type, internal reference re-pointed to the corresponding copied operation
        cnt.n["relation-checks"] += 1
        want, got = norm_link(o, p), norm_link(c, pc)
        if want[0] in ("none", "inherit"):
            if got[0] not in ("none", "inherit"):
                # re-adding gives a relation-less operation a relation when it shares a channel with an earlier-listed one
                dev("CircuitCompositeOperation", "relation-added-to-relation-less-operation", i, {"operation": K, "link": show_link(got, idx_r)}, want[0],
                    derived=channels_changed)
            continue
        refs = want[-1] if want[0] == "multi" else [want[-1]]
        if any(id(r) not in M for r in refs):
            cnt.n["external-references"] += 1      # not an internal relation: nothing is required
            continue
        mrefs = [M[id(r)] for r in refs]
        ok = got[0] == want[0] and got[1:-1] == want[1:-1]
        grefs = [] if got[0] in ("none", "inherit") else (got[-1] if got[0] == "multi" else [got[-1]])
        ok = ok and len(grefs) == len(mrefs) and all(a is b for a, b in zip(grefs, mrefs))
        if ok:
            continue
        # classify
        attr = "relation-not-kept"
        inv = {id(cc): oo for oo, cc in ((oo, M.get(id(oo))) for oo, _ in ls) if cc is not None}
        if grefs and any(id(g) not in idx_r for g in grefs):
            attr = "relation-points-outside-the-copy"
        elif grefs and got[0] == want[0] and got[1:-1] == want[1:-1]:
            tw_hit = None
            for g, r in zip(grefs, refs):
                x = inv.get(id(g))
                if g is not M[id(r)] and x is not None and value_equal(x, r):
                    tw_hit = (x, r)
            if tw_hit is None and len(grefs) < len(refs):
                missing = [r for r in refs if not any(g is M[id(r)] for g in grefs)]
                for r in missing:
                    for oo, _ in ls:
                        if value_equal(oo, r):
                            tw_hit = (oo, r)
            if tw_hit is not None:
                attr = "relation-re-pointed-to-value-equal-twin:" + ("twin-sub-circuits" if is_comp(tw_hit[0]) else "twin-operations") + \
                    ":" + twin_origin(tw_hit[0], tw_hit[1], par_s, src)
        KK = K if not attr.startswith("relation-re-pointed") else "CircuitCompositeOperation"
        if attr == "relation-not-kept":
            # the transfer lookup is keyed by VALUE: a reference with a value-equal twin anywhere in the copied circuit may have been re-pointed to
            # the twin's copy at another level and then re-linked by add (reference not present in that sub-circuit)
            twin_of_ref = next(((oo, r) for r in refs for oo, _ in ls if value_equal(oo, r)), None)
            own_copy_drops = drops_link(o)
            if twin_of_ref is not None and not own_copy_drops:
                KK, attr = "CircuitCompositeOperation", "relation-re-pointed-to-value-equal-twin:" + \
                    ("twin-sub-circuits" if is_comp(twin_of_ref[0]) else "twin-operations") + ":" + twin_origin(twin_of_ref[0], twin_of_ref[1], par_s, src)
        if attr == "relation-not-kept" and not drops_link(o):
            par = {id(oo): pp for oo, pp in ls}
            if want[0] == "multi" and got[0] == "multi" and got[1:-1] == want[1:-1] and len(grefs) < len(mrefs):
                kept = [m for m in mrefs if any(g is m for g in grefs)]
                lost = [r for r in refs if not any(g is M[id(r)] for g in grefs)]
                if len(kept) == len(grefs) and all(idx_s.get(id(r), -1) > i for r in lost if idx_s.get(id(r)) != "root"):
                    KK, attr = "MultiRelationLink", "reference-to-later-listed-operation-dropped"
            elif want[0] == "single" and par.get(id(refs[0])) is not p:
                KK, attr = "CircuitCompositeOperation", "relation-across-sub-circuit-levels-not-kept"
            elif want[0] == "multi" and any(par.get(id(r)) is not p for r in refs):
                KK, attr = "CircuitCompositeOperation", "relation-across-sub-circuit-levels-not-kept"
        if attr == "relation-not-kept" and want[0] == "multi" and not drops_link(o):
            KK = "MultiRelationLink"
        dev(KK, attr, i, {"operation": K, "link": show_link(got, idx_r)}, show_link(want, idx_s))

    # --- same operation sequence (judged after the operations: a re-linked operation also moves in the listing) ---------------
    cnt.n["sequence-checks"] += 1
    has_cause = bool(devs)
    twins = False
    seen = []
    for o, _ in ls:
        if any(value_equal(o, x) for x in seen):
            twins = True
            break
        seen.append(o)
    tw = ""      # (value-equal twins change the listing only through a re-pointed relation, which is reported on its own)
    _ = twins
    if any(type(o.relation).__name__ == "MultiRelationLink" and len(o.relation._reference_nodes) > 1 for o, _ in ls):
        tw = ":with-multi-links-in-the-original"     # the graph position of a multi-linked operation follows the latest reference at add time
    if type(res) is not type(src):
        dev("CircuitCompositeOperation", "kind", "root", type(res).__name__, type(src).__name__)
    mapped = [(M.get(id(o)), M.get(id(p))) for o, p in ls]
    if len(lr) != len(ls):
        dev("CircuitCompositeOperation", "listing-length" + tw, "root", len(lr), len(ls), derived=has_cause)
    elif any(c is not mc or p is not mp for (c, p), (mc, mp) in zip(lr, mapped)):
        i = next(i for i, ((c, p), (mc, mp)) in enumerate(zip(lr, mapped)) if c is not mc or p is not mp)
        dev("CircuitCompositeOperation", "operation-sequence" + tw, i,
            {"kinds": [type(c).__name__ for c, _ in lr], "position of the copy of the original's i-th operation": [idx_r.get(id(mc)) for mc, _ in mapped]},
            {"kinds": [type(o).__name__ for o, _ in ls], "position of the copy of the original's i-th operation": list(range(len(ls)))}, derived=has_cause)

    # --- same schedule relative to its own start (own evaluator, frame of the copied circuit) -----------------------------
    if len(lr) == len(ls) and all(M.get(id(o)) is not None for o, _ in ls):
        cnt.n["schedule-evaluated"] += 1
        es, er = Evaluator(src, ls), Evaluator(res, lr)
        try:
            a = es.relative([o for o, _ in ls])
            b = er.relative([M[id(o)] for o, _ in ls])
        except RecursionError:
            a, b = [], [(0.0, -1.0)]
        if not close_seq(a, b) or er.cyclic != es.cyclic:
            first = next((d for d in devs if not d["attr"].startswith("schedule")), None)
            i = next((i for i, (x, y) in enumerate(zip(a, b)) if abs(x[0] - y[0]) > EPS or abs(x[1] - y[1]) > EPS), None)
            # a consequence of an already recorded deviation is counted, not reported under a second key
            ml = ":with-multi-links-in-the-original" if any(type(o.relation).__name__ == "MultiRelationLink" and len(o.relation._reference_nodes) > 1
                                                            for o, _ in ls) else ""
            dev("CircuitCompositeOperation", "schedule-relative-to-own-start:without-any-field-or-relation-deviation" + ml, i, b, a, derived=first is not None)
    return devs, M


# ------------------------------------------------------------------------------------------------
# Run-time monitors (observation only) around copy() of every operation class and repeat()
# ------------------------------------------------------------------------------------------------
class Mon:
    track = False      # record on which composites decomposed_operations() ran (it hands the composite's link down to relation-less children)
    read = []          # those composites (objects kept alive)
    active = False
    depth = 0
    cur = None
    events = []
    repeats = []
    cnt = None
    phase = ""


def mon_reset(cnt):
    Mon.active, Mon.depth, Mon.cur, Mon.events, Mon.repeats, Mon.cnt, Mon.phase = True, 0, None, [], [], cnt, ""
    Mon.track, Mon.read = True, []


def mon_off():
    Mon.active, Mon.cur, Mon.depth = False, None, 0
    Mon.track, Mon.read = False, []


def _wrap_leaf_copy(cls):
    orig = cls.__dict__["copy"]

    def copy(self, relation_transfer_lookup=None):
        res = orig(self, relation_transfer_lookup=relation_transfer_lookup)
        if Mon.active and Mon.cur is not None:
            Mon.cur["pairs"].append((self, res))
        return res
    copy.__wrapped__ = orig
    setattr(cls, "copy", copy)


def _wrap_composite(cls):
    orig_copy = cls.__dict__["copy"]
    orig_repeat = cls.__dict__["repeat"]

    def copy(self, relation_transfer_lookup=None):
        if not Mon.active:
            return orig_copy(self, relation_transfer_lookup=relation_transfer_lookup)
        outer = Mon.depth == 0
        if outer:
            Mon.cur = {"src": self, "pairs": [], "phase": Mon.phase}
        Mon.depth += 1
        try:
            res = orig_copy(self, relation_transfer_lookup=relation_transfer_lookup)
        finally:
            Mon.depth -= 1
        if not outer:
            if Mon.cur is not None:
                Mon.cur["pairs"].append((self, res))
            return res
        ev, Mon.cur = Mon.cur, None
        ev["res"] = res
        active, Mon.active = Mon.active, False
        try:
            ev["devs"], ev["M"] = compare_copy(self, res, ev["pairs"], Mon.cnt)
            ls = walk(self)
            ev["src_ops"] = [o for o, _ in ls]
            ev["src_rel"] = Evaluator(self, ls).relative(ev["src_ops"])
        finally:
            Mon.active = active
        Mon.events.append(ev)
        return res

    def repeat(self, times):
        if not Mon.active or Mon.depth != 0:
            return orig_repeat(self, times=times)
        ls = walk(self)
        rec = {"self": self, "times": times, "first": len(Mon.events), "pre_ops": [o for o, _ in ls], "phase": Mon.phase}
        rec["pre_rel"] = Evaluator(self, ls).relative(rec["pre_ops"])
        res = orig_repeat(self, times=times)
        rec["calls"] = Mon.events[rec["first"]:]
        active, Mon.active = Mon.active, False
        try:
            rec["devs"] = check_repeat(rec, Mon.cnt)
        finally:
            Mon.active = active
        Mon.repeats.append(rec)
        return res
    orig_decomposed = cls.__dict__["decomposed_operations"]

    def decomposed_operations(self):
        if Mon.track and not any(x is self for x in Mon.read):
            Mon.read.append(self)
        return orig_decomposed(self)
    decomposed_operations.__wrapped__ = orig_decomposed
    copy.__wrapped__ = orig_copy
    repeat.__wrapped__ = orig_repeat
    setattr(cls, "copy", copy)
    setattr(cls, "repeat", repeat)
    setattr(cls, "decomposed_operations", decomposed_operations)


def install_monitors():
    lib = _L
    n = 0
    for mod in (lib.co, lib.so):
        for name in dir(mod):
            cls = getattr(mod, name)
            if isinstance(cls, type) and cls.__module__ == mod.__name__ and "copy" in cls.__dict__ and \
                    issubclass(cls, lib.ico.ICircuitOperation):
                _wrap_leaf_copy(cls)
                n += 1
    _wrap_composite(lib.Composite)
    _L.monitored_classes = n + 1


def check_repeat(rec, cnt):
    """after repeat(): every appended block is made of fresh objects and has the schedule of the original block relative to its own start"""
    devs = []
    me = rec["self"]
    calls = rec["calls"]
    if not calls:
        return devs
    first = calls[0]
    if first["src"] is not me:
        return devs
    blocks = [list(rec["pre_ops"])]
    M0 = first["M"]
    for ev in calls[1:]:
        if ev["src"] is not first["res"]:
            continue
        blk = []
        for o in rec["pre_ops"]:
            c0 = M0.get(id(o))
            blk.append(ev["M"].get(id(c0)) if c0 is not None else None)
        blocks.append(blk)
    now = walk(me)
    pos = {}
    for i, (o, _) in enumerate(now):
        pos.setdefault(id(o), []).append(i)
    evl = Evaluator(me, now)
    upstream = next((d for ev in calls for d in ev["devs"]), None)
    for k, blk in enumerate(blocks):
        cnt.n["repeat-blocks"] += 1
        if any(b is None for b in blk):
            continue
        missing = [i for i, b in enumerate(blk) if len(pos.get(id(b), [])) != 1]
        if missing:
            devs.append({"K": "CircuitCompositeOperation", "attr": "repeat:block-operations-not-listed-exactly-once", "pos": missing[0],
                         "observed": {"block": k, "listed": len(pos.get(id(blk[missing[0]]), []))}, "required": 1, "derived": False})
            continue
        rel = evl.relative(blk)
        if not close_seq(rel, rec["pre_rel"]):
            devs.append({"K": "CircuitCompositeOperation", "attr": "repeat:schedule-of-block-relative-to-own-start:without-any-field-or-relation-deviation", "pos": k,
                         "observed": rel, "required": rec["pre_rel"], "derived": upstream is not None})
    ids = [id(b) for blk in blocks for b in blk if b is not None]
    if len(ids) != len(set(ids)):
        devs.append({"K": "CircuitCompositeOperation", "attr": "repeat:blocks-share-operation-objects", "pos": None,
                     "observed": len(ids) - len(set(ids)), "required": 0, "derived": False})
    return devs
