"""Bounded stand-in for C09: repetition-code circuits run the protocol.

Post-condition of ``construct_repetition_code_circuit`` (and of the multi-round constructor)
evaluated on the REAL objects, exported with the REAL ``to_stim``, with oracles that do not use
the library:

* the exported Stim program is executed by Stim's own ``TableauSimulator`` (exact: before every
  measurement ``peek_z`` tells whether the outcome is deterministic and which value it has);
* the prescribed record (heralding zeros, accumulated parities, refocusing flips, final data
  values) is computed here from the *requested* states and the protocol in the statement;
* "prepared" is the register state Stim reports at the end of the preparation stage;
* detector / observable determinism is Stim's own analysis (``detector_error_model`` refuses
  non-deterministic detectors) plus Stim's detector sampler;
* the detector *targets* are compared with the sets the protocol implies for an ancilla that is
  never reset (syndrome s_c = m_c xor m_(c-1), detector = s_c xor s_(c-1)); this clause is
  stronger than the literal word "deterministic" (every parity of deterministic measurements
  is deterministic) and is the only way an offset error can be seen; it has its own keys.

Run:  cd /verif && PYTHONPATH=/verif /venv/bin/python bounded/c09.py --tier quick --seed 0 --out build/C09.bounded.json
"""
import os
import sys
import io
import json
import random
import itertools
import warnings
import contextlib
import multiprocessing as mp

os.environ.setdefault("MPLBACKEND", "Agg")
warnings.filterwarnings("ignore")

from bounded import common  # noqa: E402

PROP = "C09"

# ------------------------------------------------------------------------------------------
# Inputs
# ------------------------------------------------------------------------------------------
# The repetition chains of the Surface-17 layouts, written out here (an input, cross-checked
# against the layouts' gate edges by a probe).
CHAIN17 = ["D1", "X1", "D2", "X2", "D3", "Z2", "D6", "Z4", "D5", "Z1", "D4", "Z3", "D7", "X3", "D8", "X4", "D9"]
CHAIN9 = ["D3", "Z2", "D6", "Z4", "D5", "Z1", "D4", "X3", "D7"]
LAYOUTS = {
    "Repetition9Code": CHAIN17,
    "Repetition9Round6Code": CHAIN17,
    "Repetition5Round4Code": CHAIN9,
}


def _layout(name):
    from qce_circuit.library.repetition_code import repetition_code_connectivity as m
    return getattr(m, name)()


def sub_chains(chain):
    """every contiguous sub-chain that starts and ends on a data qubit (>= 2 data), both directions"""
    out = []
    n_data = (len(chain) + 1) // 2
    for i in range(n_data):
        for j in range(i + 1, n_data):
            out.append((2 * i, 2 * j + 1))
    return out


def involved_names(spec):
    """ordered qubit names of the chain of a description spec (data, ancilla, data, ...)"""
    kind = spec["kind"]
    if kind == "composite":
        return involved_names(spec["base"])
    if kind in ("chain", "default"):
        return ["D%d" % i for i in range(spec["length"])]
    names = LAYOUTS[spec["layout"]][spec["start"]:spec["stop"]]
    return list(reversed(names)) if spec.get("reverse") else list(names)


def build_description(spec):
    """REAL description object through the public API"""
    from qce_circuit.connectivity import QubitIDObj
    from qce_circuit.library.repetition_code.circuit_components import (
        RepetitionCodeDescription, CompositeRepetitionCodeDescription)
    kind = spec["kind"]
    if kind == "default":
        return None
    if kind == "chain":
        return RepetitionCodeDescription.from_chain(length=spec["length"], qubit_refocusing=spec["refocus"])
    if kind == "layout":
        return RepetitionCodeDescription.from_connectivity(
            involved_qubit_ids=[QubitIDObj(n) for n in involved_names(spec)],
            connectivity=_layout(spec["layout"]), qubit_refocusing=spec["refocus"])
    if kind == "composite":
        base = build_description(spec["base"])
        lay = spec["base"]["layout"]
        return CompositeRepetitionCodeDescription(
            _base_description=base, _qubit_index_map=dict(base._qubit_index_map), _connectivity=_layout(lay))
    raise ValueError(kind)


def spec_refocus(spec):
    if spec["kind"] == "composite":
        return spec_refocus(spec["base"])
    if spec["kind"] == "default":
        return True
    return bool(spec["refocus"])


def build_state(data, anc):
    from qce_circuit.language import InitialStateContainer, InitialStateEnum
    e = {0: InitialStateEnum.ZERO, 1: InitialStateEnum.ONE}
    if data is None:
        return InitialStateContainer.empty()
    return InitialStateContainer.from_ordered_list([e[b] for b in data], None if anc is None else [e[b] for b in anc])


@contextlib.contextmanager
def quiet():
    """the library prints progress bars / warnings while unrolling and flattening"""
    buf_o, buf_e = io.StringIO(), io.StringIO()
    with warnings.catch_warnings():
        warnings.simplefilter("ignore")
        with contextlib.redirect_stdout(buf_o), contextlib.redirect_stderr(buf_e):
            yield


# ------------------------------------------------------------------------------------------
# Independent evaluator of an exported Stim program
# ------------------------------------------------------------------------------------------
PREP_GATES = ("I", "X", "Y", "TICK")   # computational-basis preparation: identity or a pi rotation


def analyse(stim_circuit, n_qubits, segmented=False):
    """Execute the program with Stim's tableau simulator (one continuous run).

    Returns a list of segments (one segment unless ``segmented``; a segment ends after a run of
    OBSERVABLE_INCLUDE lines).  Each segment is a dict
        meas        [(qubit, value or None if the outcome is random)]   record of the segment
        prepared    [bit or None per qubit]  register state at the end of the preparation stage, i.e. after the
                    maximal run of I / X / TICK that follows the segment's first block of measurements
        detectors   [(coords, frozenset(record indices relative to the segment start))]
        observables {idx: set(record indices relative to the segment start)}
        n_ops       number of non-annotation instructions
    """
    import stim
    flat = stim_circuit.flattened()
    sim = stim.TableauSimulator()
    sim.set_num_qubits(max(n_qubits, flat.num_qubits, 1))

    def peek(q):
        z = sim.peek_z(q)
        return None if z == 0 else (0 if z > 0 else 1)

    def new_segment():
        return {"meas": [], "prepared": None, "detectors": [], "observables": {}, "stage": 0, "n_ops": 0, "in_obs": False}

    segments = []
    seg = new_segment()
    for ins in flat:
        name = ins.name
        if segmented and seg["in_obs"] and name != "OBSERVABLE_INCLUDE":
            segments.append(seg)
            seg = new_segment()
        # stage: 0 before the heralding measurements, 1 inside them, 2 preparation gates, 3 rest
        if seg["stage"] == 0 and name == "M":
            seg["stage"] = 1
        elif seg["stage"] == 1 and name != "M":
            seg["stage"] = 2
        if seg["stage"] == 2 and name not in PREP_GATES:
            seg["prepared"] = [peek(q) for q in range(n_qubits)]
            seg["stage"] = 3
        meas = seg["meas"]
        if name == "M":
            seg["n_ops"] += 1
            for t in ins.targets_copy():
                q = t.value
                meas.append((q, peek(q)))
                sim.do(stim.CircuitInstruction("M", [q]))
        elif name == "DETECTOR":
            idx = set()
            for t in ins.targets_copy():
                k = len(meas) + t.value
                if k < 0:
                    raise ValueError("detector looks back before the first measurement of the experiment")
                idx ^= {k}
            seg["detectors"].append((tuple(ins.gate_args_copy()), frozenset(idx)))
        elif name == "OBSERVABLE_INCLUDE":
            seg["in_obs"] = True
            cur = seg["observables"].setdefault(int(ins.gate_args_copy()[0]), set())
            for t in ins.targets_copy():
                k = len(meas) + t.value
                if k < 0:
                    raise ValueError("observable looks back before the first measurement of the experiment")
                cur ^= {k}
        elif name in ("TICK", "SHIFT_COORDS", "QUBIT_COORDS"):
            pass
        else:
            seg["n_ops"] += 1
            sim.do(ins)
    segments.append(seg)
    for sg in segments:
        if sg["prepared"] is None:
            sg["prepared"] = [peek(q) for q in range(n_qubits)] if sg is segments[-1] else [None] * n_qubits
    return segments


def prescribed_record(names, data, anc, cycles, refocus):
    """The record the protocol prescribes, per qubit (position in the chain): list of values in time order.

    position 2i is data i, position 2i+1 is ancilla i (neighbours: data i and data i+1).
    every qubit: heralding 0 first.
    ancilla i: cycles >= 1: after cycle c the accumulated parity a_i xor c*(x_i xor x_(i+1)) (never reset;
               refocusing flips both neighbours, parity unchanged); cycles == 0: one measurement of a_i.
    data i: one final measurement x_i xor [refocus] * (cycles-1 flips, none in the last cycle).
    """
    n = len(names)
    d = (n + 1) // 2
    x = list(data) if data is not None else [0] * d
    a = list(anc) if anc is not None else [0] * (d - 1)
    out = {}
    for i in range(d):
        flips = (max(cycles - 1, 0) if refocus else 0) % 2
        out[2 * i] = [0, x[i] ^ flips]
    for i in range(d - 1):
        p = x[i] ^ x[i + 1]
        if cycles == 0:
            out[2 * i + 1] = [0, a[i]]
        else:
            out[2 * i + 1] = [0] + [a[i] ^ ((c * p) % 2) for c in range(1, cycles + 1)]
    return out


def prescribed_detectors(recs, d, cycles):
    """{(ancilla position, time slot t): frozenset(abs record indices)}; recs[pos] = abs indices in time order
    (index 0 is the heralding entry).  Slot t < cycles is QEC cycle t+1, slot t == cycles is the final one."""
    out = {}
    for i in range(d - 1):
        a = 2 * i + 1
        m = recs[a]  # m[c] = record index of cycle c (c >= 1)
        for c in range(1, cycles + 1):
            out[(a, c - 1)] = frozenset([m[c]] if c <= 2 else [m[c], m[c - 2]])
        fin = {recs[2 * i][1], recs[2 * i + 2][1]}
        if cycles == 1:
            fin ^= {m[1]}
        elif cycles >= 2:
            fin ^= {m[cycles], m[cycles - 1]}
        out[(a, cycles)] = frozenset(fin)
    return out


def cyc_bucket(c):
    return str(c) if c <= 3 else ">=4"


def determinism_failures(stim_circuit):
    """Stim's own verdict on detector / observable determinism of a whole program: [(key suffix, clause, observed)]"""
    import numpy as np
    out = []
    try:
        stim_circuit.detector_error_model()
    except Exception as exc:
        out.append(("stim-rejects:detectors-or-observable",
                    "all detectors and the logical observable are deterministic (Stim's detector_error_model accepts)",
                    str(exc).split("\n")[0][:200]))
        return out
    dd, oo = stim_circuit.compile_detector_sampler(seed=1).sample(16, separate_observables=True)
    if np.any(dd):
        out.append(("detector-sampler-flips", "detectors deterministic in 16 noiseless shots", int(np.sum(dd))))
    if np.any(oo):
        out.append(("observable-sampler-flips", "observable deterministic in 16 noiseless shots", int(np.sum(oo))))
    return out


def check_export(stim_circuit, names, index_of, data, anc, cycles, refocus, desc_function):
    """All clauses of the statement on ONE exported program.  Returns ({clause: evaluations}, [failure dicts])."""
    try:
        an = analyse(stim_circuit, max(index_of.values()) + 1)[0]
    except Exception as exc:  # e.g. look-back before the start of the record
        return {"export": 1}, [{"key": "C09:export:not-executable:%s" % type(exc).__name__,
                                "clause": "the exported circuit can be executed",
                                "function": "to_stim/construct_repetition_code_circuit", "observed": repr(exc)[:300],
                                "required": "executable Stim program"}]
    return check_analysis(an, stim_circuit, names, index_of, data, anc, cycles, refocus, desc_function)


def check_analysis(an, stim_circuit, names, index_of, data, anc, cycles, refocus, desc_function, relative_time=False):
    """``an`` = one segment of ``analyse``; ``stim_circuit`` = the whole program if the segment is the whole program
    (then Stim's determinism verdict is taken here), else None."""
    fails = []
    evals = {"prepare": 0, "record": 0, "determinism": 0, "targets": 0}

    def fail(key, clause, function, observed, required):
        fails.append({"key": key, "clause": clause, "function": function, "observed": observed, "required": required})

    n = len(names)
    d = (n + 1) // 2
    pos_of_index = {index_of[nm]: p for p, nm in enumerate(names)}

    x = list(data) if data is not None else [0] * d
    a = list(anc) if anc is not None else [0] * (d - 1)

    # ---- clause: every requested initial state is actually prepared --------------------------
    evals["prepare"] += 1
    prep = an["prepared"]
    prep_x = [prep[index_of[names[2 * i]]] for i in range(d)]
    prep_a = [prep[index_of[names[2 * i + 1]]] for i in range(d - 1)]
    for i in range(d):
        if prep_x[i] != x[i]:
            fail("C09:prepare:data:requested-state-not-prepared",
                 "every requested data initial state is prepared", desc_function,
                 {"data_position": i, "prepared": prep_x, "requested": x}, x)
            break
    for i in range(d - 1):
        if prep_a[i] != a[i]:
            if prep_a == x[:d - 1] and prep_x == x:
                cls = "ancilla-prepared-from-data-state-of-same-position"   # the whole ancilla register repeats the data states
            elif not any(prep_a):
                cls = "requested-one-left-in-zero"
            else:
                cls = "other"
            fail("C09:prepare:ancilla:%s" % cls,
                 "every requested ancilla initial state is prepared", desc_function,
                 {"ancilla_position": i, "prepared_ancilla": prep_a, "requested_ancilla": a, "requested_data": x}, a)
            break

    # ---- clause: exact measurement record -----------------------------------------------------
    evals["record"] += 1
    meas = an["meas"]
    recs = {}
    foreign = [q for q, _ in meas if q not in pos_of_index]
    for k, (q, v) in enumerate(meas):
        if q in pos_of_index:
            recs.setdefault(pos_of_index[q], []).append(k)
    want = prescribed_record(names, x, a, cycles, refocus)
    got = {p: [meas[k][1] for k in recs.get(p, [])] for p in range(n)}
    structure_ok = not foreign and all(len(got[p]) == len(want[p]) for p in range(n))
    if structure_ok:
        # block structure: heralding block first, then one block per cycle (all ancillas), data last
        n_h = n
        her = sorted(recs[p][0] for p in range(n))
        if her != list(range(n_h)):
            structure_ok = False
        for c in range(1, max(cycles, 1) + 1):
            blk = sorted(recs[2 * i + 1][c] for i in range(d - 1))
            lo = n_h + (c - 1) * (d - 1)
            if blk != list(range(lo, lo + d - 1)):
                structure_ok = False
        fin = sorted(recs[2 * i][1] for i in range(d))
        lo = n_h + max(cycles, 1) * (d - 1)
        if fin != list(range(lo, lo + d)):
            structure_ok = False
    if not structure_ok:
        fail("C09:record:structure:cycles=%s" % cyc_bucket(cycles),
             "record = heralding of every qubit, then per cycle one measurement of every ancilla, then every data qubit",
             "construct_repetition_code_circuit",
             {"measured_positions": [pos_of_index.get(q, "foreign:%d" % q) for q, _ in meas]},
             {"per_position_counts": {p: len(want[p]) for p in range(n)}})
    else:
        rnd = [(p, j) for p in range(n) for j, v in enumerate(got[p]) if v is None]
        if rnd:
            p, j = rnd[0]
            role = "heralding" if j == 0 else ("parity" if p % 2 else "final-data")
            fail("C09:record:nondeterministic:%s" % role,
                 "noiseless execution yields exactly the prescribed record (every outcome deterministic)",
                 "construct_repetition_code_circuit", {"position": p, "entry": j, "record": got}, want)
        elif got != want:
            want_prep = prescribed_record(names, prep_x, prep_a, cycles, refocus) \
                if None not in prep_x and None not in prep_a else None
            if want_prep is not None and got == want_prep:
                which = "ancilla" if prep_x == x else ("data" if prep_a == a else "data+ancilla")
                fail("C09:record:differs-exactly-as-implied-by-the-unprepared-%s-state" % which,
                     "noiseless execution yields exactly the prescribed record for the REQUESTED states",
                     "construct_repetition_code_circuit", got, want)
            else:
                ref = want_prep if want_prep is not None else want
                bad = [(p, j) for p in range(n) for j in range(len(got[p])) if got[p][j] != ref[p][j]]
                p, j = bad[0] if bad else (0, 0)
                role = "heralding-nonzero" if j == 0 else ("parity" if p % 2 else "final-data")
                fail("C09:record:%s:wrong-value:cycles=%s:refocus=%s" % (role, cyc_bucket(cycles), int(refocus)),
                     "heralding zeros; ancilla = accumulated parity per cycle; data = initial value xor refocusing "
                     "flips in every cycle but the last",
                     "get_circuit_qec_with_detectors/get_circuit_qec_round(_with_dynamical_decoupling)",
                     {"first_deviation": {"position": p, "entry": j}, "record": got,
                      "relative_to": "prepared states" if want_prep is not None else "requested states"}, ref)

    # ---- clause: number and determinism of detectors and observable ---------------------------------
    evals["determinism"] += 1
    dets = an["detectors"]
    need = (d - 1) * (cycles + 1)
    if len(dets) != need or (stim_circuit is not None and stim_circuit.num_detectors != need):
        fail("C09:detectors:count:cycles=%s" % cyc_bucket(cycles), "(d-1)(cycles+1) detectors",
             "construct_repetition_code_circuit/get_circuit_qec_with_detectors", len(dets), need)
    obs = an["observables"]
    if sorted(obs.keys()) != [0] or (stim_circuit is not None and stim_circuit.num_observables != 1):
        fail("C09:observable:count", "exactly one logical observable (index 0)",
             "construct_repetition_code_circuit", sorted(obs.keys()), [0])
    if stim_circuit is not None:
        for suffix, clause, observed in determinism_failures(stim_circuit):
            fail("C09:determinism:%s" % suffix, clause, "construct_repetition_code_circuit", observed, "deterministic")

    # ---- clause (stronger reading): which record entries the detectors / the observable compare -------------
    evals["targets"] += 1
    if structure_ok and len(dets) == need:
        want_d = prescribed_detectors(recs, d, cycles)
        seen = {}
        label_bad = None
        if relative_time and dets and all(len(c) >= 2 for c, _ in dets):
            # segment of a longer program: time labels count on from the earlier segments
            t0 = min(c[1] for c, _ in dets)
            dets = [((c[0], c[1] - t0) + tuple(c[2:]), idx) for c, idx in dets]
        for coords, idx in dets:
            if len(coords) < 2 or int(coords[0]) not in pos_of_index:
                label_bad = coords
                continue
            key = (pos_of_index[int(coords[0])], int(coords[1]))
            if key in seen:
                label_bad = coords
            seen[key] = idx
        if label_bad is not None or set(seen) != set(want_d):
            fail("C09:detectors:labels:cycles=%s" % cyc_bucket(cycles),
                 "one detector per (ancilla, time slot 0..cycles), labelled (ancilla index, slot)",
                 "construct_repetition_code_circuit/get_circuit_qec_with_detectors",
                 sorted([list(c) for c, _ in dets]), sorted([[index_of[names[a_]], t] for a_, t in want_d]))
        else:
            for (a_, t) in sorted(want_d, key=lambda k: (k[1], k[0])):
                if seen[(a_, t)] != want_d[(a_, t)]:
                    slot = "final" if t == cycles else ("cycle-%d" % (t + 1) if t < 2 else (
                        "last-cycle" if t == cycles - 1 else "middle-cycle"))
                    def _name(k):
                        q = meas[k][0]
                        p = pos_of_index[q]
                        return "%s[%d]" % (names[p], recs[p].index(k))
                    fail("C09:detectors:targets:%s:cycles=%s" % (slot, cyc_bucket(cycles)),
                         "detector (ancilla a, cycle c) = m_c (c<=2) or m_c xor m_(c-2); final = data parity xor "
                         "last syndrome (m_last xor m_(last-1))  [record entries named qubit[k-th measurement]]",
                         "construct_repetition_code_circuit" if t == cycles else "get_circuit_qec_with_detectors",
                         {"ancilla": names[a_], "slot": t, "compares": sorted(_name(k) for k in seen[(a_, t)])},
                         sorted(_name(k) for k in want_d[(a_, t)]))
                    break
        if 0 in obs:
            finals = {recs[2 * i][1] for i in range(d)}
            if not obs[0] or not obs[0] <= finals:
                fail("C09:observable:targets", "the logical observable is a parity of final data measurements",
                     "construct_repetition_code_circuit", sorted(obs[0]), sorted(finals))
    return evals, fails


# ------------------------------------------------------------------------------------------
# One case = one constructor input; three exports (as built, unrolled, unrolled+flattened)
# ------------------------------------------------------------------------------------------
def desc_function_name(spec):
    if spec["kind"] == "composite":
        return "CompositeRepetitionCodeDescription.get_operations/InitialStateContainer.get_ancilla_qubit_operation"
    return "RepetitionCodeDescription.get_operations/InitialStateContainer.get_data_qubit_operation"


def add_evals(res, ev, variant):
    for k, v in ev.items():
        res["evals"] += v
        res["per"][k] = res["per"].get(k, 0) + v
        if variant != "as-built":
            res["per"]["variants"] = res["per"].get("variants", 0) + v


def run_case(case):
    """case = {"desc": spec, "data": [..]|None, "anc": [..]|None, "cycles": int}"""
    res = {"evals": 0, "per": {}, "fails": [], "skipped": None, "nontrivial": False, "case": case}
    spec, data, anc, cycles = case["desc"], case["data"], case["anc"], case["cycles"]
    names = involved_names(spec)
    refocus = spec_refocus(spec)
    try:
        from qce_circuit.library.repetition_code.circuit_constructors import construct_repetition_code_circuit
        from qce_circuit.addon_stim import to_stim
        common.clear_caches()
        with quiet():
            description = build_description(spec)
            state = build_state(data, anc)
            if description is None:
                circuit = construct_repetition_code_circuit(qec_cycles=cycles, initial_state=state)
                index_of = {nm: i for i, nm in enumerate(names)}
            else:
                circuit = construct_repetition_code_circuit(qec_cycles=cycles, description=description, initial_state=state)
                from qce_circuit.connectivity import QubitIDObj
                index_of = {nm: description.map_qubit_id_to_circuit_index(QubitIDObj(nm)) for nm in names}
    except Exception as exc:
        res["evals"] += 1
        res["fails"].append({"key": "C09:build:exception:%s" % type(exc).__name__,
                             "clause": "the constructor produces a circuit for every admissible input",
                             "function": "construct_repetition_code_circuit", "observed": repr(exc)[:300],
                             "required": "a circuit", "witness": case})
        return res
    res["nontrivial"] = cycles >= 1 or any(data or []) or any(anc or [])
    base_keys = set()
    for variant in ("as-built", "unrolled", "unrolled+flattened"):
        try:
            common.clear_caches()
            with quiet():
                if variant == "unrolled":
                    circuit = circuit.apply_modifiers()
                elif variant == "unrolled+flattened":
                    circuit = circuit.flatten()
                common.clear_caches()
                sc = to_stim(circuit)
        except Exception as exc:
            res["evals"] += 1
            res["fails"].append({"key": "C09:export:%s:exception:%s" % (variant, type(exc).__name__),
                                 "clause": "the circuit can be unrolled / flattened / exported",
                                 "function": "apply_modifiers/flatten/to_stim", "observed": repr(exc)[:300],
                                 "required": "a Stim circuit", "witness": dict(case, variant=variant)})
            break
        ev, fails = check_export(sc, names, index_of, data, anc, cycles, refocus, desc_function_name(spec))
        add_evals(res, ev, variant)
        for f in fails:
            if variant == "as-built":
                base_keys.add(f["key"])
            elif f["key"] in base_keys:
                continue  # same class already reported for the circuit as built
            else:
                f["key"] = f["key"] + "@" + variant
                f["clause"] += " [holds for the circuit as built, fails after %s]" % variant
            f["witness"] = dict(case, variant=variant, chain=names)
            res["fails"].append(f)
    return res


def run_multi_case(case):
    """construct_repetition_code_multi_round_circuit: every segment must run the protocol.
    case = {"desc": spec, "data":..., "anc":..., "rounds": [c1, c2, ...]}"""
    res = {"evals": 0, "per": {}, "fails": [], "skipped": None, "nontrivial": True, "case": case}
    spec, data, anc, rounds = case["desc"], case["data"], case["anc"], case["rounds"]
    names = involved_names(spec)
    refocus = spec_refocus(spec)
    n = len(names)
    d = (n + 1) // 2
    try:
        import stim
        from qce_circuit.library.repetition_code.circuit_constructors import construct_repetition_code_multi_round_circuit
        from qce_circuit.addon_stim import to_stim
        from qce_circuit.connectivity import QubitIDObj
        common.clear_caches()
        with quiet():
            description = build_description(spec)
            circuit = construct_repetition_code_multi_round_circuit(qec_cycles=list(rounds), description=description,
                                                                    initial_state=build_state(data, anc))
            common.clear_caches()
            sc = to_stim(circuit)
        index_of = {nm: description.map_qubit_id_to_circuit_index(QubitIDObj(nm)) for nm in names}
    except Exception as exc:
        res["evals"] += 1
        res["fails"].append({"key": "C09:multi-round:build:exception:%s" % type(exc).__name__,
                             "clause": "the multi-round constructor produces an exportable circuit",
                             "function": "construct_repetition_code_multi_round_circuit", "observed": repr(exc)[:300],
                             "required": "a circuit", "witness": case})
        return res
    # one continuous execution, cut into the experiments (an experiment ends with its OBSERVABLE_INCLUDE lines);
    # what follows the last one is the calibration part (not a repetition-code experiment)
    res["evals"] += 1
    res["per"]["multi"] = 1
    try:
        segs = analyse(sc, max(index_of.values()) + 1, segmented=True)
    except Exception as exc:
        res["fails"].append({"key": "C09:multi-round:export:not-executable:%s" % type(exc).__name__,
                             "clause": "the exported circuit can be executed",
                             "function": "construct_repetition_code_multi_round_circuit", "observed": repr(exc)[:300],
                             "required": "executable Stim program", "witness": case})
        return res
    tail = segs[-1] if not segs[-1]["in_obs"] else None
    exps = segs[:-1] if tail is not None else segs
    if len(exps) != len(rounds) or (tail is not None and (tail["detectors"] or tail["observables"])):
        res["fails"].append({"key": "C09:multi-round:segments", "clause": "one protocol run per requested round count",
                             "function": "construct_repetition_code_multi_round_circuit",
                             "observed": len(exps), "required": len(rounds), "witness": case})
        return res
    seen = set()
    fails_all = []
    for suffix, clause, observed in determinism_failures(sc):
        fails_all.append((None, {"key": "C09:determinism:%s" % suffix, "clause": clause,
                                 "function": "construct_repetition_code_multi_round_circuit", "observed": observed,
                                 "required": "deterministic"}))
    for k, (seg, cycles) in enumerate(zip(exps, rounds)):
        ev, fails = check_analysis(seg, None, names, index_of, data, anc, cycles, refocus, desc_function_name(spec),
                                   relative_time=True)
        for kk, v in ev.items():
            res["evals"] += v
            res["per"]["multi"] += v
        fails_all.extend((k, f) for f in fails)
    for k, f in fails_all:
        # preparation failures have their cause in the description classes, not in this constructor: same key as for
        # the single-experiment constructor; everything else is keyed as multi-round
        if not (f["key"].startswith("C09:prepare:") or f["key"].startswith("C09:record:differs-exactly-as-implied")):
            f["key"] = f["key"].replace("C09:", "C09:multi-round:", 1)
        if f["key"] in seen:
            continue
        seen.add(f["key"])
        f["witness"] = dict(case, segment=k, chain=names)
        res["fails"].append(f)
    return res


def dispatch(case):
    try:
        if "rounds" in case:
            return run_multi_case(case)
        return run_case(case)
    except Exception as exc:  # harness problem: surface it, do not hide it
        import traceback
        return {"evals": 0, "fails": [], "skipped": "harness-exception:%s" % type(exc).__name__,
                "trace": traceback.format_exc()[-1500:], "nontrivial": False, "case": case}


# ------------------------------------------------------------------------------------------
# Enumeration
# ------------------------------------------------------------------------------------------
def all_states(d):
    datas = [list(t) for t in itertools.product((0, 1), repeat=d)]
    ancs = [None] + [list(t) for t in itertools.product((0, 1), repeat=d - 1)]
    return datas, ancs


def enumerate_cases(tier, seed):
    rng = random.Random(seed)
    cases = []
    quick = tier == "quick"
    if quick:
        d_exh, cyc_exh = (2, 3), list(range(0, 7))
        d_exh_short, cyc_short = (4,), [0, 1, 2, 3, 4]      # all states, refocusing on, cycles 0..4
        d_smp, n_rand, d_big, cyc_big = (4, 5), 2, (6, 7), [0, 1, 2, 3, 4]
        cyc_layout, n_layout_states = [0, 1, 2, 3, 4, 5], 1
    else:
        d_exh, cyc_exh = (2, 3, 4), list(range(0, 9))
        d_exh_short, cyc_short = (5,), [0, 1, 2, 3, 4]     # all states, refocusing on, cycles 0..4
        d_smp, n_rand, d_big, cyc_big = (5, 6), 8, (7, 8, 9), [0, 1, 2, 3, 4, 5, 6]
        cyc_layout, n_layout_states = [0, 1, 2, 3, 4, 5, 6, 7], 2
    info = dict(d_exhaustive=list(d_exh), cycles_exhaustive=[cyc_exh[0], cyc_exh[-1]], d_exhaustive_short=list(d_exh_short),
                d_sampled=list(d_smp) + list(d_big), layout_cycles_max=cyc_layout[-1])

    def rand_state(d):
        return [rng.randint(0, 1) for _ in range(d)], rng.choice([None, [rng.randint(0, 1) for _ in range(d - 1)]])

    def fixed_states(d):
        return [([0] * d, None), ([1] * d, [1] * (d - 1)), ([i % 2 for i in range(d)], [(i + 1) % 2 for i in range(d - 1)])]

    # (1) chain from length, every state, every cycle count, both refocusing settings
    for d in d_exh:
        datas, ancs = all_states(d)
        for refocus in (True, False):
            spec = {"kind": "chain", "length": 2 * d - 1, "refocus": refocus}
            for cycles in cyc_exh:
                for x in datas:
                    for a in ancs:
                        cases.append({"desc": spec, "data": x, "anc": a, "cycles": cycles})
    for d in d_exh_short:
        datas, ancs = all_states(d)
        spec = {"kind": "chain", "length": 2 * d - 1, "refocus": True}
        for cycles in cyc_short:
            for x in datas:
                for a in ancs:
                    cases.append({"desc": spec, "data": x, "anc": a, "cycles": cycles})
    # (1b) default description (description=None), and calls without any requested state
    for d in (2, 3):
        datas, ancs = all_states(d)
        for cycles in range(0, 5):
            for x in datas:
                for a in ancs:
                    cases.append({"desc": {"kind": "default", "length": 2 * d - 1}, "data": x, "anc": a, "cycles": cycles})
        for refocus in (True, False):
            for cycles in range(0, 5):
                cases.append({"desc": {"kind": "chain", "length": 2 * d - 1, "refocus": refocus}, "data": None, "anc": None,
                              "cycles": cycles})
    # (2) larger distances, sampled states (always all-zero / all-one / alternating)
    for d in list(d_smp) + list(d_big):
        for refocus in (True, False):
            spec = {"kind": "chain", "length": 2 * d - 1, "refocus": refocus}
            for cycles in (cyc_exh if d in d_smp else cyc_big):
                sts = fixed_states(d) + [rand_state(d) for _ in range(n_rand if d in d_smp else 0)]
                if d in d_big and quick:
                    sts = sts[2:]
                for x, a in sts:
                    cases.append({"desc": spec, "data": x, "anc": a, "cycles": cycles})
    # (3) every contiguous data-to-data sub-chain of every Surface-17 repetition layout
    k = 0
    for lay, chain in LAYOUTS.items():
        for (s, e) in sub_chains(chain):
            d = (e - s + 1) // 2
            for reverse in (False, True):
                for refocus in (True, False):
                    k += 1
                    if quick and (reverse != refocus) == bool((s // 2 + e // 2) % 2):
                        continue    # quick tier: two of the four (direction, refocusing) combinations per sub-chain
                    spec = {"kind": "layout", "layout": lay, "start": s, "stop": e, "reverse": reverse, "refocus": refocus}
                    for cycles in cyc_layout:
                        if quick and d >= 7 and cycles > 3:
                            continue
                        sts = [rand_state(d) for _ in range(n_layout_states)]
                        if cycles == cyc_layout[-1] or (quick and d >= 7):
                            sts = sts[:1]
                        for x, a in sts:
                            cases.append({"desc": spec, "data": x, "anc": a, "cycles": cycles})
    # (4) composite description wrapped around a layout sub-chain (second get_operations implementation)
    # (the composite looks parity groups up in a layout, so its base must be a sub-chain of that layout)
    for d in (2, 3):
        datas, ancs = all_states(d)
        bases = [{"kind": "layout", "layout": "Repetition9Code", "start": 8, "stop": 8 + 2 * d - 1, "reverse": False, "refocus": True},
                 {"kind": "layout", "layout": "Repetition5Round4Code", "start": 2, "stop": 2 + 2 * d - 1, "reverse": True, "refocus": False}]
        for base in bases:
            for cycles in ((0, 1, 2, 3, 4) if not quick else (0, 1, 2, 3)):
                for x in datas:
                    for a in ancs:
                        if quick and d == 3 and a is not None and (sum(x) + sum(a) + cycles) % 2:
                            continue
                        cases.append({"desc": {"kind": "composite", "base": base}, "data": x, "anc": a, "cycles": cycles})
    # (5) multi-round constructor: lists of <= 3 distinct round counts <= 5 in every order
    multi = []
    lists = [p for r in (1, 2, 3) for p in itertools.permutations(range(0, 6), r)]
    if quick:
        lists = [p for p in lists if len(p) <= 2 and max(p) <= 4] + rng.sample([p for p in lists if len(p) == 3], 12)
    for p in lists:
        specs = [{"kind": "chain", "length": 5, "refocus": True},
                 {"kind": "layout", "layout": "Repetition9Code", "start": 8, "stop": 13, "reverse": False, "refocus": True}]
        if quick:
            specs = specs[len(multi) % 2:][:1]
        for spec in specs:
            x, a = rand_state(3)
            multi.append({"desc": spec, "data": x, "anc": a, "rounds": list(p)})
    return cases, multi, info


def cost(case):
    n = len(involved_names(case["desc"]))
    return n * (1 + (sum(case["rounds"]) + len(case["rounds"]) if "rounds" in case else case["cycles"]))


def canon(case):
    return json.dumps(case, sort_keys=True)


# ------------------------------------------------------------------------------------------
# Probes (assumptions of the harness itself)
# ------------------------------------------------------------------------------------------
def run_probes(res):
    import stim
    # Stim refuses a non-deterministic detector and reports random outcomes through peek_z
    c = stim.Circuit("R 0 1\nX 0\nH 1\nM 0 1\nDETECTOR rec[-1]\n")
    try:
        c.detector_error_model()
        ok = False
    except Exception:
        ok = True
    res.probes.append({"assumption": "stim.Circuit.detector_error_model() rejects a non-deterministic detector", "ok": ok})
    an = analyse(stim.Circuit("R 0 1\nM 0 1\nX 0\nTICK\nH 1\nM 0 1\nDETECTOR(1,0) rec[-2] rec[-4]\n"), 2)[0]
    res.probes.append({"assumption": "the evaluator sees prepared state [1,0], outcome 1 deterministic, H-outcome random, "
                                     "detector = absolute entries {0,2}",
                       "ok": an["prepared"] == [1, 0] and an["meas"][2] == (0, 1) and an["meas"][3] == (1, None)
                       and an["detectors"][0][1] == frozenset({0, 2})})
    # the hard-coded chains are chains of the layouts: consecutive names are gate edges, ancillas' parity groups
    ok = True
    for lay, chain in LAYOUTS.items():
        L = _layout(lay)
        edges = set()
        for i in range(L.gate_sequence_count):
            for e in L.get_gate_sequence_at_index(i).edge_ids:
                edges.add(frozenset(q.id for q in e.qubit_ids))
        ok &= all(frozenset(p) in edges for p in zip(chain, chain[1:])) and len(edges) == len(chain) - 1
        for pg in L.parity_group_x + L.parity_group_z:
            if pg.ancilla_id.id in chain:
                k = chain.index(pg.ancilla_id.id)
                ok &= (k % 2 == 1) and {q.id for q in pg.data_ids} == {chain[k - 1], chain[k + 1]}
    res.probes.append({"assumption": "the chains written into this module are exactly the gate edges / parity groups of the "
                                     "three Surface-17 repetition layouts", "ok": bool(ok)})
    # the prescribed detector sets localise errors: Stim's own error analysis, on a hand-written d=3, 4-cycle protocol
    # circuit with an X error on the middle data qubit before each cycle, reports exactly the two neighbouring
    # detectors of that time slot
    ok = probe_detector_prescription()
    res.probes.append({"assumption": "prescribed detector sets: in a hand-written protocol circuit an X error on a data qubit "
                                     "before cycle c (or before the final measurement) flips exactly the neighbouring "
                                     "ancillas' detectors of that slot (Stim detector_error_model)", "ok": ok})


def probe_detector_prescription():
    import stim
    d, cycles = 3, 4
    n = 2 * d - 1
    ok = True
    for slot in range(cycles + 1):
        c = stim.Circuit()
        c.append("R", range(n))
        c.append("M", range(n))
        nm = n
        recs = {p: [p] for p in range(n)}
        for cyc in range(1, cycles + 1):
            if slot == cyc - 1:
                c.append("X_ERROR", [2], 0.125)
            c.append("SQRT_Y", [1, 3])
            c.append("CZ", [0, 1, 2, 3])
            c.append("CZ", [1, 2, 3, 4])
            c.append("SQRT_Y_DAG", [1, 3])
            c.append("M", [1, 3])
            recs[1].append(nm)
            recs[3].append(nm + 1)
            nm += 2
            if cyc < cycles:
                c.append("X", [0, 2, 4])
        if slot == cycles:
            c.append("X_ERROR", [2], 0.125)
        c.append("M", [0, 2, 4])
        for k, p in enumerate((0, 2, 4)):
            recs[p].append(nm + k)
        nm += 3
        want = prescribed_detectors(recs, d, cycles)
        order = sorted(want, key=lambda k: (k[1], k[0]))
        for key in order:
            c.append("DETECTOR", [stim.target_rec(i - nm) for i in sorted(want[key])])
        dem = c.detector_error_model()
        errs = [sorted(t.val for t in ins.targets_copy() if t.is_relative_detector_id()) for ins in dem if ins.type == "error"]
        expect = sorted(order.index((a, slot)) for a in (1, 3))
        ok &= (errs == [expect])
    return bool(ok)


# ------------------------------------------------------------------------------------------
# main
# ------------------------------------------------------------------------------------------
def main(argv=None):
    args = common.parse_args(argv)
    if args.replay:
        return replay(args.replay)
    res = common.Result(PROP)
    cases, multi, info = enumerate_cases(args.tier, args.seed)
    # de-duplicate
    uniq = {}
    for c in cases + multi:
        uniq.setdefault(canon(c), c)
    work = sorted(uniq.values(), key=lambda c: (-cost(c), canon(c)))   # big ones first: better load balance
    run_probes(res)
    n_proc = min(16, os.cpu_count() or 1)
    per = {}
    with mp.Pool(n_proc) as pool:
        for out in pool.imap_unordered(dispatch, work, chunksize=4):
            if out.get("skipped"):
                res.skip(out["skipped"])
                if out.get("trace"):
                    sys.stderr.write(out["trace"] + "\n")
                continue
            res.evaluations += out["evals"]
            for k, v in out.get("per", {}).items():
                per[k] = per.get(k, 0) + v
            if out["nontrivial"]:
                res.distinct.add(canon(out["case"]))
            for f in out["fails"]:
                w = f.pop("witness")
                old = res.failures.get(f["key"])
                size = len(json.dumps(w))
                if old is None or (size, canon(w)) < old["_size"]:
                    res.failures.pop(f["key"], None)
                    res.fail(f["key"], f["clause"], f["function"], w, f.get("observed"), f.get("required"), w)
                    res.failures[f["key"]]["_size"] = (size, canon(w))
    for f in res.failures.values():
        f.pop("_size", None)
    res.failures = dict(sorted(res.failures.items()))
    res.rule = (
        "input = (description, data states, ancilla states, cycles) of construct_repetition_code_circuit; tier %s. "
        "(1) EXHAUSTIVE: RepetitionCodeDescription.from_chain distances %s x all 2^d data states x (ancilla unspecified + all "
        "2^(d-1) ancilla states) x cycles %d..%d x refocusing on/off%s; description=None (from_initial_state) and calls without "
        "any requested state for d=2,3, cycles 0..4. (2) SAMPLED states (seeded; all-zero, all-one, alternating + random): "
        "from_chain distances %s. (3) every contiguous data-to-data sub-chain (82) of Repetition9Code, Repetition9Round6Code, "
        "Repetition5Round4Code through from_connectivity, %s, cycles 0..%d, random states. (4) CompositeRepetitionCodeDescription "
        "around d=2,3 layout sub-chains, all states. (5) construct_repetition_code_multi_round_circuit with lists of <=3 distinct "
        "round counts <=5 (d=3). Every input of (1)-(4) is exported three times (as built, after apply_modifiers, after "
        "apply_modifiers+flatten) and every export is evaluated. Non-trivial = at least one QEC cycle or one requested |1>. "
        "Not exhaustive: distances, cycles and states beyond these bounds are not visited."
        % (args.tier, info["d_exhaustive"], info["cycles_exhaustive"][0], info["cycles_exhaustive"][1],
           ("; distance %s all states, refocusing on, cycles 0..4" % info["d_exhaustive_short"]) if info["d_exhaustive_short"] else "",
           info["d_sampled"],
           "two of the four (direction, refocusing) combinations" if args.tier == "quick" else "both directions x refocusing on/off",
           info["layout_cycles_max"]))
    res.exhaustive = False
    n_single = sum(1 for c in work if "rounds" not in c)
    n_multi = len(work) - n_single
    res.stand_ins = [
        {"function": "RepetitionCodeDescription.get_operations / CompositeRepetitionCodeDescription.get_operations / "
                     "InitialStateContainer.get_*_operation (via construct_repetition_code_circuit)",
         "contract": "clause 'every requested data and ancilla initial state is actually prepared': the register state Stim "
                     "reports (peek_z) at the end of the preparation stage equals the requested bits (unrequested = 0)",
         "bound": "%d constructor inputs x 3 exports" % n_single, "evaluations": per.get("prepare", 0)},
        {"function": "construct_repetition_code_circuit + to_stim",
         "contract": "clause 'exact record': every outcome deterministic (TableauSimulator.peek_z != 0); heralding block of "
                     "zeros; per cycle every ancilla = a xor c*(x_i xor x_(i+1)); data = x xor (cycles-1 refocusing flips if "
                     "refocusing); block structure of the record",
         "bound": "same inputs", "evaluations": per.get("record", 0)},
        {"function": "construct_repetition_code_circuit / get_circuit_qec_with_detectors",
         "contract": "clause 'all (d-1)(cycles+1) detectors and the logical observable are deterministic': counts, Stim "
                     "detector_error_model() accepts, 16 noiseless detector-sampler shots without a flip",
         "bound": "same inputs", "evaluations": per.get("determinism", 0)},
        {"function": "get_circuit_qec_with_detectors / DetectorOperation offsets (1/2/3 sub-circuit split)",
         "contract": "stronger reading of 'detectors': detector (a, cycle c) compares exactly m_c (c<=2) or m_c, m_(c-2); the "
                     "final one the two neighbouring data outcomes and the last syndrome; observable within final data "
                     "outcomes (an offset error keeps a detector 'deterministic' on computational inputs, so the literal "
                     "clause cannot see it)",
         "bound": "same inputs", "evaluations": per.get("targets", 0)},
        {"function": "DeclarativeCircuit.apply_modifiers / flatten (clause 'equally after unrolling and after flattening')",
         "contract": "all four clauses above re-evaluated on the export of the unrolled and of the unrolled+flattened circuit "
                     "(these evaluations are included in the four counts above)",
         "bound": "same inputs", "evaluations": per.get("variants", 0)},
        {"function": "construct_repetition_code_multi_round_circuit",
         "contract": "one continuous Stim execution of the whole program; every experiment in it (cut at its "
                     "OBSERVABLE_INCLUDE lines) satisfies the four clauses for its round count; Stim accepts the whole program",
         "bound": "%d round lists (d=3)" % n_multi, "evaluations": per.get("multi", 0)},
    ]
    # samples
    step = max(1, len(work) // 6)
    for c in work[::step][:7]:
        res.samples.append({"input": c, "checked": "prepared state, exact record, detector/observable count + determinism, "
                                                   "detector targets" + ("; per experiment of the program" if "rounds" in c
                                                                         else "; on 3 exports")})
    res.write(args.out)
    print(json.dumps({"evaluations": res.evaluations, "distinct_nontrivial": len(res.distinct), "inputs": len(work),
                      "failures": list(res.failures.keys()), "skipped": res.skipped}, indent=1))
    return 0


def replay(path):
    rec, ra = common.load_replay(path)
    if isinstance(rec.get("failure"), dict):  # driver may nest the record
        ra = rec["failure"].get("replay_args") or rec["failure"].get("witness") or ra
        rec = rec["failure"]
    key = rec.get("key") or rec.get("obligation") or rec.get("id") or ""
    case = {k: ra[k] for k in ("desc", "data", "anc") if k in ra}
    if "rounds" in ra:
        case["rounds"] = ra["rounds"]
    else:
        case["cycles"] = ra["cycles"]
    out = dispatch(case)
    if out.get("skipped"):
        print("harness problem:", out["skipped"], out.get("trace", ""))
        return 2
    keys = [f["key"] for f in out["fails"]]
    print("input:", json.dumps(case))
    for f in out["fails"]:
        print("observed failure:", f["key"], "| observed:", json.dumps(f.get("observed"), default=str)[:400],
              "| required:", json.dumps(f.get("required"), default=str)[:300])
    still = key in keys if key else bool(keys)
    if still:
        print("VIOLATION property=%s replay=%s" % (PROP, path))
        return 1
    print("clause holds on this input now (recorded key %r not reproduced; other keys: %s)" % (key, keys))
    return 0


if __name__ == "__main__":
    sys.exit(main())
