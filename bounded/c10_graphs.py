#!/venv/bin/python
"""Dump the REAL relation graphs of library circuits for the deductive part of C10 (durations as logical variables).

For every enumerated constructor input (bounded; reuses the case enumeration and the `Structure` compiler of bounded/c10.py) the
circuit is built through the public constructors, as constructed and after apply_modifiers, and its duration-independent
structure is written as JSON: per operation the duration rule (global key / fixed value / decoupling wait), the relation
link (type + referenced operation indices, read from the link FIELDS), composite membership, channels.
usage: c10_graphs.py --tier quick|thorough --seed N --out build/C10.graphs.json
"""
import sys, os, json, time, multiprocessing as mp
sys.path.insert(0, os.path.dirname(os.path.dirname(os.path.abspath(__file__))))
from bounded import common, c10

MAX_OPS = {"quick": 170, "thorough": 700}


def rule_of(op):
    if c10.is_composite(op):
        return ["composite"]
    s = op.duration_strategy
    n = type(s).__name__
    if n == "GlobalDurationStrategy":
        return ["global", s.key.name]
    if n == "FixedDurationStrategy":
        return ["fixed", float(s.duration)]
    if n == "GlobalDecouplingWaitDurationStrategy":
        return ["decoupling"]
    return ["other", n]


def dump(case, phase):
    circ = c10.make_phase(case, phase)
    S = c10.Structure(circ)
    if S.order is None:
        return None
    nodes = []
    for i, o in enumerate(S.nodes):
        multi, refs, rtype = S.link[i]
        nodes.append({"cls": type(o).__name__, "rule": rule_of(o), "multi": multi, "refs": refs, "rtype": rtype,
                      "members": S.members[i]})
    occ = {str(q): v for q, v in S.occupation.items()}
    return {"case": case, "phase": phase, "flag": c10.case_flag(case), "nodes": nodes, "order": S.order, "occupation": occ,
            "n_leaf": len(S.leaf)}


def job(args):
    case, tier = args
    out = []
    try:
        for phase in ("built", "unrolled"):
            g = dump(case, phase)
            if g is not None and g["n_leaf"] <= MAX_OPS[tier]:
                out.append(g)
    except Exception as e:
        return [{"error": f"{type(e).__name__}: {e}", "case": case}]
    return out


def confirm(path):
    """native replay of the solver's counter-examples: build the real circuit, put the solver's durations in force, evaluate the
    overlap clauses with the own evaluator of bounded/c10.py"""
    from fractions import Fraction
    d = json.load(open(path))
    for r in d["results"]:
        if r.get("verdict") != "refuted":
            continue
        try:
            table = [float(Fraction(r["durations"][k])) for k in c10.KEYS]
            circ = c10.make_phase(r["case"], r["phase"])
            S = c10.Structure(circ)
            with c10.durations_in_force(table):
                ev = c10.Evaluator(S)
                v1, v2, _ = c10.find_overlaps(S, ev, 0.0)
            r["confirmed"] = bool(v1 or v2)
            r["overlap_kind"] = "barrier-overlap" if v2 else ("channel-overlap" if v1 else None)
            r["table"] = table
            if v1 or v2:
                r["observed"] = c10.violation_json((v2 or v1)[0], ev)
        except Exception as e:
            r["confirmed"] = None
            r["confirm_error"] = f"{type(e).__name__}: {e}"
    json.dump(d, open(path, "w"), indent=0, default=str)
    print("c10_graphs --confirm:", sum(1 for r in d["results"] if r.get("confirmed")), "confirmed of",
          sum(1 for r in d["results"] if r.get("verdict") == "refuted"), "refuted")


def main():
    if "--confirm" in sys.argv:
        confirm(sys.argv[sys.argv.index("--confirm") + 1])
        return
    a = common.parse_args()
    cases, _info = c10.make_cases(a.tier, a.seed)
    # one representative per (constructor, description, cycles / rounds / type): the initial states do not change the relation graph's shape
    seen, sel = set(), []
    for c in cases:
        k = json.dumps({x: c.get(x) for x in ("ctor", "desc", "cycles", "rounds", "type", "names")}, sort_keys=True)
        if k not in seen:
            seen.add(k)
            sel.append(c)
    limit = 120 if a.tier == "quick" else 10**9
    sel.sort(key=c10.case_cost)
    sel = [c for c in sel if c10.case_cost(c) <= (60 if a.tier == "quick" else 400)]
    if len(sel) > limit:                      # evenly spread over the cost range
        step = len(sel) / limit
        sel = [sel[int(i * step)] for i in range(limit)]
    with mp.Pool(16) as pool:
        res = pool.map(job, [(c, a.tier) for c in sel], chunksize=2)
    graphs = [g for r in res for g in r if "error" not in g]
    errors = [g for r in res for g in r if "error" in g]
    json.dump({"graphs": graphs, "errors": errors[:20], "cases": len(sel)}, open(a.out, "w"))
    print(f"c10_graphs: {len(graphs)} structures from {len(sel)} inputs, {len(errors)} constructor errors")


if __name__ == "__main__":
    main()
