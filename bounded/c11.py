#!/usr/bin/env python
"""Bounded run-time stand-in for property C11 (flattening keeps the operations, and for library circuits the program).

Real circuits are built through the public API (build programs with nested sub-circuits and no explicit relations; the
repetition-code constructors; the multi-round experiment constructor), really flattened with
`DeclarativeCircuit.flatten()` and the statement is evaluated on what comes out:

* content: the multiset of leaf operations (kind, qubits, duration, tag, channels) found by an OWN walk over the pointer
  fields of the graph before flattening equals the one found by the same walk afterwards (and the one the library lists);
  counted with the repetition counts of the enclosing sub-circuits it must not change either ("removes the nesting only");
* no node of the flattened graph holds a sub-circuit (own walk);
* the flattened circuit still has a schedule (own walk over the link fields: no relation cycle);
* a second flatten() changes nothing (content, listing, relation links, schedule, acquisition indices, Stim text);
* for modifier-applied library circuits: listing order, schedule (OWN evaluator of the relation equations over the
  link fields; the library's start_time is never the oracle), acquisition indices and the exported Stim text are identical
  before and after flatten();
* the multi-round constructor (apply_modifiers + flatten per round) must list, round by round, what the same rounds
  contain when they are built stand-alone, modifier-applied and NOT flattened (order, relative schedule, acquisition
  indices shifted by the measurements of the earlier rounds, Stim text concatenated with Stim's own API); the whole
  experiment circuit is then treated as a library circuit itself.

Reading order (decided consciously): the own walk for the content is made BEFORE the first `circuit.operations`; order,
schedule, indices and Stim text "before flattening" are read AFTER `circuit.operations` was called once, because that
call hands the sub-circuit's relation link down to its first-level operations, and it is the only way the public API
lists a circuit (flatten() itself starts with the same call).

Memoised start times: before every library call that may read a time (listing, acquisition indices, flatten) the memo
caches are cleared (common.clear_caches) and refilled bottom-up from the links as they are at that moment
(`fresh_caches`), so that a stale entry from an earlier phase is never mis-attributed (C03's business) and so that the
library does not hit CPython's C recursion limit on a cold memo (about 250 chained operations).  What flatten() memoises
and re-links WHILE it runs is flatten's own behaviour and is judged.

See bounded/README.md for the command line and the output format.
"""
import os
import sys

os.environ.setdefault("MPLBACKEND", "Agg")
os.environ.setdefault("TQDM_DISABLE", "1")

import bisect
import collections
import contextlib
import hashlib
import io
import itertools
import json
import multiprocessing as mp
import random
import time
import traceback
import warnings

sys.path.insert(0, os.path.dirname(os.path.dirname(os.path.abspath(__file__))))
sys.setrecursionlimit(200000)   # relation chains of long circuits are followed recursively (by the library and by the oracle)
from bounded import common  # noqa: E402
from bounded import c18 as base  # noqa: E402  (builder pieces, own pointer walk, own evaluator of the relation equations)

PROP = "C11"
EPS = 1e-9

# global duration settings (exact binary fractions); C makes the dynamical-decoupling waits zero-length (readout < microwave)
GL = {
    "file": None,
    "A": {"READOUT": 5.0, "MICROWAVE": 3.0, "FLUX": 4.0, "RESET": 7.0},
    "B": {"READOUT": 1.0, "MICROWAVE": 0.5, "FLUX": 0.25, "RESET": 1.5},
    "C": {"READOUT": 0.5, "MICROWAVE": 1.0, "FLUX": 2.0, "RESET": 0.25},
}

# the repetition chains of the Surface-17 layouts (inputs)
CHAIN17 = ["D1", "X1", "D2", "X2", "D3", "Z2", "D6", "Z4", "D5", "Z1", "D4", "Z3", "D7", "X3", "D8", "X4", "D9"]
CHAIN9 = ["D3", "Z2", "D6", "Z4", "D5", "Z1", "D4", "X3", "D7"]
LAYOUTS = {"Repetition9Code": CHAIN17, "Repetition9Round6Code": CHAIN17, "Repetition5Round4Code": CHAIN9}

CTORS = {"full": "construct_repetition_code_circuit", "simplified": "construct_repetition_code_circuit_simplified"}


# ------------------------------------------------------------------------------------------------
# Library access
# ------------------------------------------------------------------------------------------------
class _L:
    ready = False


def L():
    if _L.ready:
        return _L
    lib = base.L()
    warnings.simplefilter("ignore")
    from qce_circuit.library.repetition_code import circuit_constructors as cc
    from qce_circuit.library.repetition_code import circuit_components as comp
    from qce_circuit.library.repetition_code import repetition_code_connectivity as conn
    from qce_circuit.library.state_calibration.circuit_components import CalibrationDescription, CalibrateType
    from qce_circuit.library.state_calibration.circuit_constructors import construct_calibration_circuit
    from qce_circuit.addon_stim import to_stim
    from qce_circuit.addon_stim import circuit_operations as sco
    from qce_circuit.connectivity import QubitIDObj
    _L.lib, _L.cc, _L.comp, _L.conn, _L.to_stim, _L.sco, _L.QubitIDObj = lib, cc, comp, conn, to_stim, sco, QubitIDObj
    _L.CalibrationDescription, _L.CalibrateType, _L.construct_calibration_circuit = CalibrationDescription, CalibrateType, construct_calibration_circuit
    warnings.simplefilter("ignore")
    _L.ready = True
    return _L


@contextlib.contextmanager
def quiet():
    """the library prints progress bars / warnings while unrolling and flattening"""
    with warnings.catch_warnings():
        warnings.simplefilter("ignore")
        with contextlib.redirect_stdout(io.StringIO()), contextlib.redirect_stderr(io.StringIO()):
            yield


def table_of(gname):
    lib = L().lib
    if GL[gname] is not None:
        return dict(GL[gname])
    reg = lib.rd.GlobalDurationRegistryManager.read_config()._global_registry
    return {k.name: float(reg[k.value]) for k in lib.rd.GlobalRegistryKey}


@contextlib.contextmanager
def global_setting(gname):
    lib = L().lib
    if GL[gname] is None:
        yield
        return
    tab = {getattr(lib.rd.GlobalRegistryKey, k): v for k, v in GL[gname].items()}
    with lib.rd.temporary_override_get_registry_at(tab):
        yield


# ------------------------------------------------------------------------------------------------
# Building inputs through the public API
# ------------------------------------------------------------------------------------------------
def _make_op(lib, it, acq):
    """one operation of a build program; never with an explicit relation (implicit sequencing only)"""
    if it["k"] == "DispersiveMeasure":
        return lib.co.DispersiveMeasure(it["q"][0], acquisition_strategy=acq, acquisition_tag=it.get("tag", ""))
    return base._make_op(lib, it, None, acq)


def _build_items(lib, circ, items, acq):
    for it in items:
        if it["k"] == "sub":
            sub = lib.DeclarativeCircuit(repetition_strategy=lib.FixedRepetitionStrategy(int(it.get("reps", 1))))
            _build_items(lib, sub, it["items"], acq)
            circ.add(sub)
        else:
            circ.add(_make_op(lib, it, acq))


def build_program(program):
    lib = L().lib
    circ = lib.DeclarativeCircuit()
    _build_items(lib, circ, program["items"], circ.get_acquisition_strategy())
    if program.get("post", "none") == "mod":
        circ = circ.apply_modifiers()
    return circ


def involved_names(spec):
    if spec["kind"] in ("chain", "default"):
        return ["Q%d" % i for i in range(spec["length"])]
    names = LAYOUTS[spec["layout"]][spec["start"]:spec["stop"]]
    return list(reversed(names)) if spec.get("reverse") else list(names)


def build_description(spec):
    lb = L()
    kind = spec["kind"]
    if kind == "default":
        return None
    if kind == "chain":
        return lb.comp.RepetitionCodeDescription.from_chain(length=spec["length"], qubit_refocusing=spec["refocus"])
    if kind == "layout":
        return lb.comp.RepetitionCodeDescription.from_connectivity(
            involved_qubit_ids=[lb.QubitIDObj(n) for n in involved_names(spec)],
            connectivity=getattr(lb.conn, spec["layout"])(), qubit_refocusing=spec["refocus"])
    raise ValueError(kind)


def build_state(data, anc):
    lib = L().lib
    e = {0: lib.InitialStateEnum.ZERO, 1: lib.InitialStateEnum.ONE}
    if data is None:
        return lib.InitialStateContainer.empty()
    return lib.InitialStateContainer.from_ordered_list([e[b] for b in data], None if anc is None else [e[b] for b in anc])


def build_library(case):
    """modifier-applied library circuit (before flattening)"""
    lb = L()
    desc = build_description(case["desc"])
    ctor = getattr(lb.cc, CTORS[case["ctor"]])
    circ = ctor(qec_cycles=int(case["cycles"]), description=desc, initial_state=build_state(case["data"], case["anc"]))
    return circ.apply_modifiers()


def build_multi(case):
    """(the real multi-round circuit, the same rounds built stand-alone and modifier-applied but NOT flattened, a barrier like the one
    the constructor puts after every round, the calibration circuit built stand-alone)"""
    lb = L()
    lib = lb.lib
    desc = build_description(case["desc"])
    state = build_state(case["data"], case["anc"])
    real = lb.cc.construct_repetition_code_multi_round_circuit(qec_cycles=list(case["rounds"]), description=desc, initial_state=state)
    rounds = []
    for r in case["rounds"]:
        rc = lb.cc.construct_repetition_code_circuit(qec_cycles=int(r), description=desc, initial_state=state)
        rounds.append(rc.apply_modifiers())
    channel_map = desc.circuit_channel_map
    cal = lb.CalibrationDescription(_qubit_ids=desc.calibration_qubit_ids, _qubit_index_map={v: k for k, v in channel_map.items()},
                                    _type=lb.CalibrateType.QUTRIT)
    return real, rounds, lib.co.Barrier(desc.qubit_indices), lb.construct_calibration_circuit(description=cal)


# ------------------------------------------------------------------------------------------------
# Own observation of a circuit
# ------------------------------------------------------------------------------------------------
def tag_of(op):
    n = type(op).__name__
    if n == "DispersiveMeasure":
        return "tag=" + str(op.acquisition_tag)
    if n == "DetectorOperation":
        return "det=" + repr((op.last_acquisition_index, op.main_target, op.secondary_target, op.reference_offset, op.secondary_offset))
    if n == "LogicalObservableOperation":
        return "obs=" + repr((op.last_acquisition_index, op.main_target))
    if n == "CoordinateShiftOperation":
        return "shift=" + repr((op.time_shift, op.space_shift))
    return ""


def descriptor(op, ev):
    return (type(op).__name__, tuple(base.op_qubits(op)), round(float(ev.dur(op)), 9), tag_of(op),
            tuple(repr(c) for c in op.channel_identifiers))


def own_walk(structure):
    """leaf operations below a composite by the own pointer walk: [(operation, multiplicity by repetition counts)], number of
    nodes that hold a sub-circuit"""
    out, ncomp = [], [0]

    def rec(comp, mult):
        for n in base.composite_nodes(comp)[2]:
            o = n.operation
            if base.is_composite(o):
                ncomp[0] += 1
                rec(o, mult * int(o.nr_of_repetitions))
            else:
                out.append((o, mult))
    rec(structure, int(structure.nr_of_repetitions))
    return out, ncomp[0]


def multisets(structure, T):
    leaves, ncomp = own_walk(structure)
    ev = base.Evaluator(T)
    listed, unrolled = collections.Counter(), collections.Counter()
    for o, m in leaves:
        d = descriptor(o, ev)
        listed[d] += 1
        unrolled[d] += m
    return listed, unrolled, ncomp, len(leaves)


def link_view(link):
    """(kind of link, referenced objects, relation type, group rule) without the link's serial number"""
    if type(link).__name__ == "MultiRelationLink":
        return ("multi", tuple(link._reference_nodes), link._relation_type.name, link._relation_to_group.name)
    return ("single", (link._reference_node,) if link._reference_node is not None else (), link._relation_type.name, "")


def link_ids(link):
    v = link_view(link)
    return (v[0], tuple(id(r) for r in v[1]), v[2], v[3])


def fresh_caches(structure, T):
    """Drop the memoised start times (common.clear_caches), then let the library recompute them bottom-up (earliest own-evaluated end
    first).  Every entry is fresh with respect to the links as they are now; and no later read has to recurse through the whole circuit:
    on a cold memo CPython's C recursion limit is hit by the library at about 250 chained operations (RecursionError inside
    circuit.operations / flatten), which would be an artefact of clearing, not a finding.  Requires acyclic links."""
    common.clear_caches()
    ev = base.Evaluator(T)
    ops = base.walk_all_ops(structure)
    ops.sort(key=lambda o: (ev.end(o), ev.start(o), base.is_composite(o)))
    for o in ops:
        try:
            o.end_time
        except Exception:  # noqa
            pass


def observe(circuit, T, qubits):
    """what the statement compares, read through the public listing + own evaluator (caches cleared)"""
    lb = L()
    structure = circuit.circuit_structure
    fresh_caches(structure, T)
    ops = circuit.operations        # hands relation links down (see module docstring)
    fresh_caches(structure, T)      # again: the links of first-level operations of sub-circuits may just have changed
    ev = base.Evaluator(T)
    obs = {"ops": ops, "ids": [id(o) for o in ops]}
    obs["desc"] = [descriptor(o, ev) for o in ops]
    obs["sched"] = [(float(ev.start(o)), float(ev.dur(o))) for o in ops]
    obs["links"] = [link_view(o.relation_link) for o in ops]
    acq = []
    for i, o in enumerate(ops):
        if type(o).__name__ == "DispersiveMeasure":
            acq.append((i, int(o.qubit_index), int(o.acquisition_index), int(o.circuit_level_acquisition_index)))
    obs["acq_ops"] = acq
    obs["acq_q"] = {int(q): [int(v) for v in circuit.get_acquisition_indices(q)] for q in qubits}
    try:
        obs["stim"] = str(lb.to_stim(circuit))
    except Exception as e:  # noqa
        obs["stim"] = "EXPORT RAISES " + type(e).__name__
    try:
        obs["lib_sched"] = [(float(o.start_time), float(o.duration)) for o in ops]
    except Exception as e:  # noqa
        obs["lib_sched"] = None
    return obs


def shape(structure):
    """graph of a (flat) composite by the own walk: first-level nodes, edges, relation links (by object identity)"""
    end = structure._circuit_graph._endpoint_node
    depth1, _, alln = base.composite_nodes(structure)
    return {"first": [id(n.operation) for n in depth1],
            "edges": [(id(n.operation), tuple(id(m.operation) for m in n._outgoing_pointers if m is not end)) for n in alln],
            "links": [(id(n.operation), link_ids(n.operation.relation_link)) for n in alln]}


def relation_cycle(structure):
    """does the start time of some leaf operation depend on itself?  Own iterative walk over the link fields (all references of a
    group link; a referenced sub-circuit depends on everything it contains).  Returns a list of kinds on a cycle or None."""
    leaves = [o for o, _ in own_walk(structure)[0]]

    def succ(o):
        out = list(link_view(o.relation_link)[1])
        if base.is_composite(o):
            out.extend(n.operation for n in base.composite_nodes(o)[2])
        return out
    state = {}
    for root in leaves:
        if id(root) in state:
            continue
        stack = [(root, iter(succ(root)))]
        state[id(root)] = 1
        while stack:
            node, it = stack[-1]
            nxt = next(it, None)
            if nxt is None:
                state[id(node)] = 2
                stack.pop()
                continue
            s = state.get(id(nxt))
            if s == 1:
                k = next(j for j, (x, _) in enumerate(stack) if x is nxt)
                return [type(x).__name__ + ("" if base.is_composite(x) else str(base.op_qubits(x))) for x, _ in stack[k:]]
            if s is None:
                state[id(nxt)] = 1
                stack.append((nxt, iter(succ(nxt))))
    return None


def flat_diagnosis(fstruct, T, listing_ids):
    """why a second flatten() may differ from the first (own walk + own evaluator, on the graph the first flatten() built):
    'misattached' = operations with a latest-of-group link that hang under a reference which is not the latest of the group
    (the library resolved the group with end times memoised before other operations were re-linked);
    'early' = operations listed before one of the operations their link refers to (a second flatten() adds in listing order,
    does not find the reference in the new graph and re-links)."""
    end = fstruct._circuit_graph._endpoint_node
    depth1, _, alln = base.composite_nodes(fstruct)
    parent = {id(n.operation): None for n in depth1}
    for n in alln:
        for m in n._outgoing_pointers:
            if m is not end:
                parent[id(m.operation)] = n.operation
    pos = {i: k for k, i in enumerate(listing_ids)}
    ev = base.Evaluator(T)
    mis, early = [], []
    for n in alln:
        o = n.operation
        link = o.relation_link
        refs = link_view(link)[1]
        if type(link).__name__ == "MultiRelationLink" and refs:
            latest = refs[0]
            for r in refs:
                if ev.end(r) > ev.end(latest):
                    latest = r
            if parent.get(id(o)) is not latest:
                mis.append(o)
        if any(pos.get(id(r), -1) > pos.get(id(o), -1) for r in refs):
            early.append(o)
    return mis, early


def qubits_of(structure):
    out = []
    for o, _ in own_walk(structure)[0]:
        for q in base.op_qubits(o):
            if q not in out:
                out.append(q)
    return sorted(out)


def close(a, b):
    return abs(a - b) <= EPS


def sched_equal(a, b):
    return len(a) == len(b) and all(close(x[0], y[0]) and close(x[1], y[1]) for x, y in zip(a, b))


def moved_positions(pre_ids, post_ids):
    """positions (in the listing after flattening) of a smallest set of operations whose removal makes both listings agree"""
    pos = {x: i for i, x in enumerate(pre_ids)}
    seq = [pos[x] for x in post_ids]
    tails, tails_idx, prev = [], [], [-1] * len(seq)
    for i, v in enumerate(seq):
        j = bisect.bisect_left(tails, v)
        if j == len(tails):
            tails.append(v)
            tails_idx.append(i)
        else:
            tails[j] = v
            tails_idx[j] = i
        prev[i] = tails_idx[j - 1] if j > 0 else -1
    keep, i = set(), (tails_idx[-1] if tails_idx else -1)
    while i != -1:
        keep.add(i)
        i = prev[i]
    return [i for i in range(len(seq)) if i not in keep]


def counter_diff(a, b, limit=4):
    miss = [(list(map(str, k)), v - b.get(k, 0)) for k, v in a.items() if v > b.get(k, 0)]
    extra = [(list(map(str, k)), v - a.get(k, 0)) for k, v in b.items() if v > a.get(k, 0)]
    return {"missing_after": miss[:limit], "extra_after": extra[:limit]}


def short(d):
    return [d[0], list(d[1]), d[2], d[3]]


# ------------------------------------------------------------------------------------------------
# Statistics
# ------------------------------------------------------------------------------------------------
CLAUSES = ["flatten-returns", "multiset", "no-composite", "unrolled", "acyclic", "idempotent",
           "lib-order", "lib-schedule", "lib-acquisition", "lib-stim",
           "multi-content", "multi-order", "multi-schedule", "multi-acquisition", "multi-stim"]


class Stats:
    def __init__(self):
        self.n = {c: 0 for c in CLAUSES}
        self.cases = collections.Counter()
        self.failures = {}
        self.skipped = {}
        self.hashes = set()
        self.samples = []
        self.probe = collections.Counter()

    def fail(self, key, clause, function, witness, observed, required):
        size = len(json.dumps(witness, default=str))
        old = self.failures.get(key)
        if old is None or size < old["_size"]:
            self.failures[key] = {"key": key, "clause": clause, "function": function, "witness": witness, "observed": observed,
                                  "required": required, "replay_args": dict(witness, key=key), "_size": size}

    def skip(self, reason):
        self.skipped[reason] = self.skipped.get(reason, 0) + 1

    def merge(self, o):
        for c in CLAUSES:
            self.n[c] += o.n[c]
        self.cases.update(o.cases)
        for k, f in o.failures.items():
            old = self.failures.get(k)
            if old is None or (f["_size"], json.dumps(f["witness"], sort_keys=True, default=str)) < \
                    (old["_size"], json.dumps(old["witness"], sort_keys=True, default=str)):
                self.failures[k] = f
        for k, v in o.skipped.items():
            self.skipped[k] = self.skipped.get(k, 0) + v
        self.hashes |= o.hashes
        for s in o.samples:
            if len(self.samples) < 40:
                self.samples.append(s)
        self.probe.update(o.probe)


def exc_where(err):
    where = ""
    for fr in reversed(traceback.extract_tb(err.__traceback__)):
        if "qce_circuit" in fr.filename:
            where = fr.name
            break
    return f"{type(err).__name__}-in-{where}"


# ------------------------------------------------------------------------------------------------
# The clauses every flatten() must satisfy (build programs and library circuits alike)
# ------------------------------------------------------------------------------------------------
def core_checks(circuit, T, witness, stats, say, origin, want_pre_obs):
    """content / no sub-circuit / repetition counts / second flatten.  Returns (pre observation or None, post observation,
    flattened circuit) or None when flatten() raised."""
    fn = "CircuitCompositeOperation.apply_flatten_to_self"

    def fail(key, clause, function, observed, required):
        say("  FAIL", key, "| observed:", json.dumps(observed, default=str)[:600], "| required:", json.dumps(required, default=str)[:300])
        stats.fail(f"{PROP}:{key}", clause, function, witness, observed, required)

    structure = circuit.circuit_structure
    common.clear_caches()
    if relation_cycle(structure) is not None:
        stats.skip("the circuit has cyclic relation links before flatten()")
        return None
    listed0, unrolled0, ncomp0, nleaf0 = multisets(structure, T)     # own walk, before any listing through the library
    qubits = qubits_of(structure)
    pre = observe(circuit, T, qubits) if want_pre_obs else None
    say(f"  before: {nleaf0} leaf operations in the graph, {ncomp0} sub-circuit nodes, occupied qubits {qubits}")
    if pre is not None and pre["lib_sched"] is not None:
        stats.probe["oracle_vs_library_checked"] += 1
        if not sched_equal(pre["lib_sched"], pre["sched"]):
            stats.probe["oracle_vs_library_mismatch"] += 1

    # ---- flatten ----------------------------------------------------------------------------------------------
    stats.n["flatten-returns"] += 1
    if pre is None:
        fresh_caches(structure, T)
        circuit.operations            # the listing call every reader makes (hands links down); flatten() starts with the same call
    fresh_caches(structure, T)        # flatten() reads end times (latest-of-group links): start it from a memo that is fresh
    try:
        with quiet():
            flat = circuit.flatten()
    except Exception as e:  # noqa
        fail(f"flatten:raises:{exc_where(e)}", "flatten() returns a circuit", "DeclarativeCircuit.flatten",
             f"{type(e).__name__}: {str(e)[:200]}", "a flattened circuit")
        return None
    common.clear_caches()
    fstruct = flat.circuit_structure

    # ---- the flattened circuit has a schedule: no operation's start depends on itself ---------------------------------
    stats.n["acyclic"] += 1
    cyc = relation_cycle(fstruct)
    if cyc is not None:
        limit = sys.getrecursionlimit()
        sys.setrecursionlimit(4000)
        try:
            flat.operations
            lib_says = "circuit.operations returns"
        except RecursionError:
            lib_says = "circuit.operations raises RecursionError"
        except Exception as e:  # noqa
            lib_says = "circuit.operations raises " + type(e).__name__
        finally:
            sys.setrecursionlimit(limit)
            common.clear_caches()
        fail("flatten:relation-cycle:re-linked-operation-and-a-latest-of-group-operation-refer-to-each-other",
             "the flattened circuit can be listed and scheduled: following the relation links from any operation never comes back to it "
             "[own walk over the link fields]", "CircuitGraphBranch.add_to_graph (reference not in graph -> link to latest on own channels)",
             {"cycle": cyc[:8], "library": lib_says}, "acyclic relation links")
        return None

    # ---- content ------------------------------------------------------------------------------------------------
    listed1, unrolled1, ncomp1, nleaf1 = multisets(fstruct, T)
    say(f"  after : {nleaf1} leaf operations in the graph, {ncomp1} sub-circuit nodes")
    stats.n["multiset"] += 1
    if listed1 != listed0:
        d = counter_diff(listed0, listed1)
        cls = "operations-lost" if d["missing_after"] and not d["extra_after"] else \
            "operations-added" if d["extra_after"] and not d["missing_after"] else "operations-replaced"
        fail(f"flatten:multiset:{cls}", "the multiset of leaf operations (kind, qubits, duration, tag, channels) in the graph is the same "
             "before and after flatten() [own pointer walk]", fn, d, "equal multisets")
    stats.n["multiset"] += 1
    ev = base.Evaluator(T)
    fresh_caches(fstruct, T)
    lib_listed = collections.Counter(descriptor(o, ev) for o in flat.operations)
    if lib_listed != listed0:
        fail("flatten:multiset:listing-of-flattened-circuit-differs", "the operations the flattened circuit lists are the leaf operations "
             "of the circuit before flatten() (as a multiset)", "DeclarativeCircuit.operations after flatten", counter_diff(listed0, lib_listed),
             "equal multisets")

    # ---- no sub-circuit remains ---------------------------------------------------------------------------------
    stats.n["no-composite"] += 1
    if ncomp1 != 0 or len(flat.composite_operations) != 0:
        fail("flatten:no-composite:sub-circuit-remains", "no node of the flattened graph holds a sub-circuit [own pointer walk]", fn,
             {"sub_circuit_nodes": ncomp1, "composite_operations": len(flat.composite_operations)}, 0)

    # ---- "removes the nesting ONLY": repetition counts ------------------------------------------------------------
    stats.n["unrolled"] += 1
    if unrolled1 != unrolled0:
        fail("flatten:unrolled-multiset:repetition-count-of-sub-circuit-dropped",
             "flattening removes the nesting only: the multiset of leaf operations counted with the repetition counts of the enclosing "
             "sub-circuits is unchanged (a sub-circuit repeated n times still contributes n copies)", fn,
             dict(counter_diff(unrolled0, unrolled1), operations_before=sum(unrolled0.values()), operations_after=sum(unrolled1.values())),
             "equal multisets")

    # ---- observation after the first flatten, then a second flatten ----------------------------------------------
    post = observe(flat, T, qubits)
    if post["lib_sched"] is not None:
        stats.probe["oracle_vs_library_checked"] += 1
        if not sched_equal(post["lib_sched"], post["sched"]):
            stats.probe["oracle_vs_library_mismatch"] += 1
    sh1 = shape(fstruct)
    mis, early = flat_diagnosis(fstruct, T, post["ids"])      # now: the second flatten() works in place on the same structure
    post["misattached"] = len(mis)
    stats.n["idempotent"] += 1
    fresh_caches(fstruct, T)
    try:
        with quiet():
            flat2 = flat.flatten()
    except Exception as e:  # noqa
        fail(f"flatten:idempotent:second-flatten-raises:{exc_where(e)}", "flattening again changes nothing", "DeclarativeCircuit.flatten",
             f"{type(e).__name__}: {str(e)[:200]}", "the same circuit")
        return pre, post, flat
    common.clear_caches()
    cyc2 = relation_cycle(flat2.circuit_structure)
    if cyc2 is not None:
        fail("flatten:idempotent:second-flatten-creates-a-relation-cycle", "flattening again changes nothing", fn,
             {"cycle": cyc2[:8], "operations_listed_before_their_reference": len(early), "operations_under_a_non_latest_reference": len(mis)},
             "the same (acyclic) circuit")
        return pre, post, flat
    listed2, _, ncomp2, _ = multisets(flat2.circuit_structure, T)
    post2 = observe(flat2, T, qubits)
    sh2 = shape(flat2.circuit_structure)
    diffs = []
    if listed2 != listed1 or ncomp2 != 0:
        diffs.append("content")
    if post2["ids"] != post["ids"]:
        diffs.append("listing-order")
    if sh2["links"] != sh1["links"]:
        diffs.append("relation-links")
    if not sched_equal(post2["sched"], post["sched"]):
        diffs.append("schedule")
    if post2["acq_ops"] != post["acq_ops"] or post2["acq_q"] != post["acq_q"]:
        diffs.append("acquisition-indices")
    if post2["stim"] != post["stim"]:
        diffs.append("stim-text")
    if sh2["edges"] != sh1["edges"] or sh2["first"] != sh1["first"]:
        stats.probe["second_flatten_changes_graph_edges"] += 1      # internal; judged only through what it makes observable
    say("  second flatten changes:", diffs or "nothing")
    if diffs:
        if mis:
            cls = "first-flatten-hung-a-latest-of-group-operation-under-a-reference-that-is-not-the-latest(memo-from-before-re-linking)"
        elif early:
            cls = "flat-listing-names-an-operation-before-the-operation-it-refers-to"
        else:
            cls = diffs[0] + "-changes-on-second-flatten"
        fail(f"flatten:idempotent:{cls}", "flattening again changes nothing (content, listing order, relation links, schedule, acquisition "
             "indices, Stim text)", fn,
             {"differs_in": diffs, "operations_under_a_non_latest_reference": [type(o).__name__ + str(base.op_qubits(o)) for o in mis[:3]],
              "operations_listed_before_their_reference": [type(o).__name__ + str(base.op_qubits(o)) for o in early[:3]]}, "no difference")
    return pre, post, flat


# ------------------------------------------------------------------------------------------------
# Case: build program (implicitly sequenced, nested)
# ------------------------------------------------------------------------------------------------
def program_stats(program):
    st = {"ops": 0, "sub": 0, "nested_ops": 0, "rep": 0, "depth": 0}

    def rec(items, depth):
        for it in items:
            if it["k"] == "sub":
                st["sub"] += 1
                st["depth"] = max(st["depth"], depth + 1)
                if int(it.get("reps", 1)) != 1:
                    st["rep"] += 1
                rec(it["items"], depth + 1)
            else:
                st["ops"] += 1
                if depth > 0:
                    st["nested_ops"] += 1
    rec(program["items"], 0)
    return st


def check_program(case, stats, verbose=False):
    say = (lambda *a: print(*a)) if verbose else (lambda *a: None)
    program, gname = case["program"], case["G"]
    witness = {"type": "prog", "program": program, "G": gname}
    T = table_of(gname)
    try:
        with quiet():
            circuit = build_program(program)
    except Exception as e:  # noqa
        stats.skip(f"program cannot be built ({'apply_modifiers' if program.get('post') == 'mod' else 'add'}): {exc_where(e)}")
        return
    res = core_checks(circuit, T, witness, stats, say, "prog", want_pre_obs=(program.get("post") == "mod"))
    stats.cases["prog"] += 1
    if res is None:
        return
    pre, post, flat = res
    if pre is not None:
        # outside the statement (arbitrary programs): how often order / schedule move; recorded as a probe only
        if pre["ids"] != post["ids"]:
            stats.probe["prog_order_changes"] += 1
        byid = dict(zip(pre["ids"], pre["sched"]))
        if any(i in byid and not close(byid[i][0], s[0]) for i, s in zip(post["ids"], post["sched"])):
            stats.probe["prog_schedule_changes"] += 1
        stats.probe["prog_mod_cases"] += 1
    if len(stats.samples) < 2 and program_stats(program)["nested_ops"] >= 2:
        stats.samples.append({"input": witness, "checked": {"leaf_operations_after": len(post["ids"]),
                                                            "listing_after": [short(d) for d in post["desc"][:6]],
                                                            "clauses": ["multiset", "no-composite", "unrolled", "idempotent"]}})


# ------------------------------------------------------------------------------------------------
# Case: modifier-applied library circuit
# ------------------------------------------------------------------------------------------------
def compare_pre_post(pre, post, witness, stats, say, fnname):
    """listing order / schedule / acquisition indices / Stim text identical before and after flatten()"""
    def fail(key, clause, observed, required):
        say("  FAIL", key, "| observed:", json.dumps(observed, default=str)[:700], "| required:", json.dumps(required, default=str)[:300])
        stats.fail(f"{PROP}:{fnname}+flatten:{key}", clause, f"{fnname} -> apply_modifiers -> flatten", witness, observed, required)

    same_objects = sorted(pre["ids"]) == sorted(post["ids"])
    if not same_objects:
        stats.probe["lib_objects_replaced"] += 1
    # ---- schedule per operation object (independent of the listing position) ---------------------------------------
    sched_changed, root = [], None
    if same_objects:
        pre_by = {i: (k, s) for k, (i, s) in enumerate(zip(pre["ids"], pre["sched"]))}
        for k, (i, s) in enumerate(zip(post["ids"], post["sched"])):
            k0, s0 = pre_by[i]
            if not (close(s0[0], s[0]) and close(s0[1], s[1])):
                sched_changed.append((s0[0], k0, k))
        if sched_changed:
            root = min(sched_changed)       # earliest (before flattening) operation whose time changes

    # ---- listing order ----------------------------------------------------------------------------------------------
    stats.n["lib-order"] += 1
    order_same = (pre["ids"] == post["ids"]) if same_objects else (pre["desc"] == post["desc"])
    if not order_same:
        if same_objects:
            mv = moved_positions(pre["ids"], post["ids"])
            kinds = sorted({post["desc"][k][0] for k in mv})
            first = next(k for k, (a, b) in enumerate(zip(pre["ids"], post["ids"])) if a != b)
            obs = {"first_differing_position": first, "before": short(pre["desc"][first]), "after": short(post["desc"][first]),
                   "operations_that_moved": len(mv), "kinds_that_moved": kinds,
                   "example": {"operation": short(post["desc"][mv[0]]), "position_before": pre["ids"].index(post["ids"][mv[0]]), "position_after": mv[0]}}
            cls = "re-linked-operations-listed-elsewhere(times-change-too)" if sched_changed else "times-kept:moved=" + kinds_label(kinds)
            if post.get("misattached"):
                cls += ":latest-of-group-operation-hung-under-a-reference-that-is-not-the-latest"
        else:
            first = next((k for k, (a, b) in enumerate(zip(pre["desc"], post["desc"])) if a != b), min(len(pre["desc"]), len(post["desc"])))
            obs = {"first_differing_position": first}
            cls = "operation-objects-replaced"
        fail(f"order:{cls}", "the listing order (circuit.operations) of a modifier-applied library circuit is identical before and after flatten()",
             obs, "identical order")

    # ---- schedule ---------------------------------------------------------------------------------------------------
    stats.n["lib-schedule"] += 1
    if not same_objects:
        if not order_same or not sched_equal(pre["sched"], post["sched"]):
            fail("schedule:operation-objects-replaced", "the schedule is identical before and after flatten()", {"note": "different objects"}, "identical")
    elif sched_changed:
        _, k0, k1 = root
        lp, lq = pre["links"][k0], post["links"][k1]
        ref_was_sub = any(base.is_composite(r) for r in lp[1])
        relinked = [id(r) for r in lp[1]] != [id(r) for r in lq[1]] or lp[2] != lq[2]
        if ref_was_sub and relinked:
            cls = "operation-that-followed-a-sub-circuit-is-relinked-to-the-latest-operation-on-its-own-channels"
        elif relinked:
            cls = "operation-relinked-to-another-operation"
        else:
            cls = "same-link-different-time"
        obs = {"operations_whose_time_changes": len(sched_changed), "first": {
            "operation": short(pre["desc"][k0]), "position_before": k0, "start_before": pre["sched"][k0][0], "start_after": post["sched"][k1][0],
            "link_before": [lp[0], [type(r).__name__ for r in lp[1]], lp[2]], "link_after": [lq[0], [type(r).__name__ for r in lq[1]], lq[2]]}}
        fail(f"schedule:{cls}", "the schedule (start time and duration of every operation, own evaluation of the relation equations) of a "
             "modifier-applied library circuit is identical before and after flatten()", obs, "identical start times")

    # ---- acquisition indices ------------------------------------------------------------------------------------------
    stats.n["lib-acquisition"] += 1
    a0 = [(pre["ids"][i], q, a, c) for i, q, a, c in pre["acq_ops"]] if same_objects else [x[1:] for x in pre["acq_ops"]]
    a1 = [(post["ids"][i], q, a, c) for i, q, a, c in post["acq_ops"]] if same_objects else [x[1:] for x in post["acq_ops"]]
    if sorted(a0) != sorted(a1) or pre["acq_q"] != post["acq_q"]:
        bad = [(x, y) for x, y in zip(sorted(a0), sorted(a1)) if x != y][:3]
        per_q = {q: (pre["acq_q"][q], post["acq_q"].get(q)) for q in pre["acq_q"] if pre["acq_q"][q] != post["acq_q"].get(q)}
        if sorted(a0) == sorted(a1):
            cls = "per-qubit-index-list-changes"
        elif sorted(x[:3] for x in a0) == sorted(x[:3] for x in a1) and not order_same:
            cls = "circuit-level-index-follows-the-changed-listing-order-of-the-measurements"
        else:
            cls = "per-operation-index-changes"
        fail(f"acquisition:{cls}", "the acquisition indices (per measurement: qubit-level and circuit-level index; per qubit: "
             "get_acquisition_indices) are identical before and after flatten()",
             {"per_operation (qubit, index, circuit index) before/after": [(x[1:], y[1:]) for x, y in bad], "per_qubit": dict(list(per_q.items())[:2])},
             "identical indices")
    elif a0 != a1:
        stats.probe["lib_measurement_listing_order_changes"] += 1

    # ---- Stim text ---------------------------------------------------------------------------------------------------
    stats.n["lib-stim"] += 1
    if pre["stim"] != post["stim"]:
        l0, l1 = pre["stim"].splitlines(), post["stim"].splitlines()
        first = next((k for k, (a, b) in enumerate(zip(l0, l1)) if a != b), min(len(l0), len(l1)))
        perm = collections.Counter(_stim_atoms(pre["stim"])) == collections.Counter(_stim_atoms(post["stim"]))
        cls = ("instructions-permuted" if perm else "instructions-differ") + (":listing-order-changed" if not order_same else ":listing-order-same")
        fail(f"stim:{cls}", "the exported Stim program (text of to_stim) is identical before and after flatten()",
             {"first_differing_line": first, "before": l0[first:first + 3], "after": l1[first:first + 3], "lines": [len(l0), len(l1)]},
             "identical text")
    return order_same, bool(sched_changed)


def _stim_atoms(text):
    """instruction atoms of a Stim text (gate name with one target group), to tell a permutation from a change of content"""
    out = []
    for line in text.splitlines():
        p = line.split()
        if not p:
            continue
        name, targets = p[0], p[1:]
        if not targets or name.startswith(("DETECTOR", "OBSERVABLE", "SHIFT", "TICK", "REPEAT", "}")):
            out.append(line.strip())
        elif name in ("CZ", "CX", "CNOT", "SWAP"):
            out.extend(f"{name} {a} {b}" for a, b in zip(targets[0::2], targets[1::2]))
        else:
            out.extend(f"{name} {t}" for t in targets)
    return out


def check_library(case, stats, verbose=False):
    say = (lambda *a: print(*a)) if verbose else (lambda *a: None)
    witness = {k: case[k] for k in ("type", "ctor", "desc", "data", "anc", "cycles", "G")}
    T = table_of(case["G"])
    fnname = CTORS[case["ctor"]]
    try:
        with quiet():
            circuit = build_library(case)
    except Exception as e:  # noqa
        stats.skip(f"library circuit cannot be built: {fnname}: {exc_where(e)}")
        return
    res = core_checks(circuit, T, witness, stats, say, "lib", want_pre_obs=True)
    stats.cases["lib"] += 1
    if res is None:
        return
    pre, post, flat = res
    say(f"  listing: {len(pre['ids'])} operations before, {len(post['ids'])} after; measurements {len(pre['acq_ops'])}")
    order_same, sched_changed = compare_pre_post(pre, post, witness, stats, say, fnname)
    say("  order identical:", order_same, "| schedule changes:", sched_changed, "| stim identical:", pre["stim"] == post["stim"],
        "| acquisition identical:", pre["acq_q"] == post["acq_q"])
    if len(stats.samples) < 2:
        stats.samples.append({"input": witness, "checked": {"operations": len(pre["ids"]), "measurements": len(pre["acq_ops"]),
                                                            "stim_lines": len(pre["stim"].splitlines()), "order_identical": order_same,
                                                            "schedule_identical": not sched_changed,
                                                            "clauses": ["multiset", "no-composite", "idempotent", "order", "schedule", "acquisition", "stim"]}})


# ------------------------------------------------------------------------------------------------
# Case: multi-round experiment constructor
# ------------------------------------------------------------------------------------------------
def kinds_label(kinds):
    kinds = sorted(kinds)
    return "+".join(kinds) if len(kinds) <= 3 else "many-kinds"


def match_permutation(seq_a, seq_b):
    """positions in seq_a of the elements of seq_b (equal elements matched in order of occurrence); None if not a permutation"""
    where = collections.defaultdict(collections.deque)
    for k, x in enumerate(seq_a):
        where[x].append(k)
    out = []
    for x in seq_b:
        if not where[x]:
            return None
        out.append(where[x].popleft())
    return out


def check_multi(case, stats, verbose=False):
    """construct_repetition_code_multi_round_circuit applies apply_modifiers + flatten to every round.  Oracle: the same rounds built
    stand-alone, modifier-applied and NOT flattened; the experiment must list round 1, barrier, round 2, barrier, ..., calibration,
    every round with the order, the (relative) schedule, the acquisition order and the Stim text it had before flattening."""
    say = (lambda *a: print(*a)) if verbose else (lambda *a: None)
    witness = {k: case[k] for k in ("type", "desc", "data", "anc", "rounds", "G")}
    T = table_of(case["G"])
    fnname = "construct_repetition_code_multi_round_circuit"

    def fail(key, clause, observed, required):
        say("  FAIL", key, "| observed:", json.dumps(observed, default=str)[:700], "| required:", json.dumps(required, default=str)[:300])
        stats.fail(f"{PROP}:{fnname}:{key}", clause, fnname, witness, observed, required)

    try:
        common.clear_caches()
        with quiet():
            real, rounds, barrier, calib = build_multi(case)
    except Exception as e:  # noqa
        stats.skip(f"multi-round circuit cannot be built: {exc_where(e)}")
        return
    stats.cases["multi"] += 1
    import stim
    lb = L()
    qubits = qubits_of(real.circuit_structure)
    R = observe(real, T, qubits)
    parts = [observe(c, T, qubits) for c in rounds]
    C = observe(calib, T, qubits)
    bdesc = descriptor(barrier, base.Evaluator(T))
    nodur = lambda d: (d[0], d[1], d[3], d[4])      # noqa: E731
    # expected listing: segments (start, length, observation)
    segs, exp_desc, k = [], [], 0
    for p in parts:
        segs.append((k, len(p["desc"]), p))
        exp_desc += p["desc"] + [bdesc]
        k += len(p["desc"]) + 1
    segs.append((k, len(C["desc"]), C))
    exp_desc += C["desc"]
    say(f"  rounds {case['rounds']}: {len(R['desc'])} operations from the constructor, {len(exp_desc)} expected from the unflattened rounds")

    stats.n["multi-content"] += 1
    ca, cb = collections.Counter(exp_desc), collections.Counter(R["desc"])
    seg_ok = ca == cb and all(collections.Counter(R["desc"][s:s + n]) == collections.Counter(p["desc"]) for s, n, p in segs)
    if not seg_ok:
        d = counter_diff(ca, cb)
        cls = "operations-lost" if d["missing_after"] and not d["extra_after"] else "operations-added" if d["extra_after"] and not d["missing_after"] \
            else "operations-replaced" if (d["missing_after"] or d["extra_after"]) else "operations-in-another-round"
        fail(f"content:{cls}", "the experiment lists, round by round, the multiset of operations of the modifier-applied rounds before flattening "
             "(+ one barrier per round + the calibration circuit)", dict(d, operations=[len(exp_desc), len(R["desc"])]), "equal multisets per round")
    else:
        # ---- order ------------------------------------------------------------------------------------------------------
        stats.n["multi-order"] += 1
        moved_kinds = set()
        order_same = R["desc"] == exp_desc
        if not order_same:
            first = next(k for k, (x, y) in enumerate(zip(exp_desc, R["desc"])) if x != y)
            for s, n, p in segs:
                perm = match_permutation(p["desc"], R["desc"][s:s + n])
                mv = moved_positions(list(range(n)), perm)
                moved_kinds |= {R["desc"][s + j][0] for j in mv}
            fail("order:round-listed-in-another-order-than-before-flattening:moved=" + kinds_label(moved_kinds),
                 "every round is listed in the order it had before flattening",
                 {"first_differing_position": first, "before_flattening": short(exp_desc[first]), "in_the_experiment": short(R["desc"][first])}, "identical order")
        # ---- schedule (relative to the start of the round) ---------------------------------------------------------------
        stats.n["multi-schedule"] += 1
        changed_kinds, example = set(), None
        for s, n, p in segs:
            r0 = min((x[0] for x in R["sched"][s:s + n]), default=0.0)
            p0 = min((x[0] for x in p["sched"]), default=0.0)
            a = collections.Counter((d, round(x[0] - p0, 6)) for d, x in zip(p["desc"], p["sched"]))
            b = collections.Counter((d, round(x[0] - r0, 6)) for d, x in zip(R["desc"][s:s + n], R["sched"][s:s + n]))
            if a != b:
                changed_kinds |= {k[0][0] for k in (a - b)} | {k[0][0] for k in (b - a)}
                if example is None:
                    x, y = next(iter(a - b)), next(iter(b - a))
                    example = {"round_segment_starts_at_position": s, "before_flattening": [short(x[0]), x[1]], "in_the_experiment": [short(y[0]), y[1]]}
        if changed_kinds:
            cls = ("only-operations-that-are-listed-elsewhere" if changed_kinds <= moved_kinds else "general") + ":kinds=" + kinds_label(changed_kinds)
            fail(f"schedule:{cls}", "within every round each operation starts at the same time (relative to the round's first operation, own evaluation "
                 "of the relation equations) as before flattening", example, "identical relative start times")
        # ---- acquisition indices ------------------------------------------------------------------------------------------
        stats.n["multi-acquisition"] += 1
        exp_acq, off_c, off_q = [], 0, collections.Counter()
        for s, n, p in segs:
            for i, q, a, c in p["acq_ops"]:
                exp_acq.append((q, a + off_q[q], c + off_c))
            off_c += len(p["acq_ops"])
            off_q.update(q for _, q, _, _ in p["acq_ops"])
        got_acq = [x[1:] for x in R["acq_ops"]]
        exp_per_q = {q: [a for qq, a, _ in exp_acq if qq == q] for q in qubits}
        if got_acq != exp_acq or any(R["acq_q"][q] != exp_per_q[q] for q in qubits):
            bad = [(x, y) for x, y in zip(exp_acq, got_acq) if x != y][:3]
            cls = "measurement-order-changed" if sorted(got_acq) == sorted(exp_acq) else "general"
            fail(f"acquisition:{cls}", "every measurement of the experiment has the acquisition indices (qubit level, circuit level) it had in its round "
                 "before flattening, shifted by the number of measurements of the earlier rounds",
                 {"(qubit, index, circuit index) expected/observed": bad, "measurements": [len(exp_acq), len(got_acq)]}, "identical indices")
        # ---- Stim text --------------------------------------------------------------------------------------------------------
        stats.n["multi-stim"] += 1
        try:
            exp = stim.Circuit()
            for c in rounds:
                exp += lb.to_stim(c)
                exp.append("TICK")
            exp += lb.to_stim(calib)
            exp_text = str(exp)
        except Exception as e:  # noqa
            exp_text = "EXPORT OF A ROUND RAISES " + type(e).__name__
        if exp_text != R["stim"]:
            l0, l1 = exp_text.splitlines(), R["stim"].splitlines()
            first = next((k for k, (x, y) in enumerate(zip(l0, l1)) if x != y), min(len(l0), len(l1)))
            perm = collections.Counter(_stim_atoms(exp_text)) == collections.Counter(_stim_atoms(R["stim"]))
            fail("stim:" + ("instructions-permuted" if perm else "instructions-differ") + (":listing-order-same" if order_same else ":listing-order-changed"),
                 "the exported Stim program of the experiment is the concatenation of the programs of the rounds before flattening (+ TICK per round + calibration)",
                 {"first_differing_line": first, "before_flattening": l0[first:first + 3], "experiment": l1[first:first + 3], "lines": [len(l0), len(l1)]}, "identical text")
        if len(stats.samples) < 1:
            stats.samples.append({"input": witness, "checked": {"operations": len(R["ids"]), "measurements": len(R["acq_ops"]), "order_identical": order_same,
                                                                "clauses": ["multi-content", "multi-order", "multi-schedule", "multi-acquisition", "multi-stim"]}})
    # the experiment circuit is a library circuit itself: modifier-applied, then flattened as a whole
    if case.get("whole", True):
        try:
            with quiet():
                whole = real.apply_modifiers()
        except Exception as e:  # noqa
            stats.skip(f"multi-round circuit: apply_modifiers raises: {exc_where(e)}")
            return
        w2 = dict(witness, whole=True)
        res = core_checks(whole, T, w2, stats, say, "multi", want_pre_obs=True)
        stats.cases["multi-whole"] += 1
        if res is not None:
            pre, post, _ = res
            compare_pre_post(pre, post, w2, stats, say, fnname)


# ------------------------------------------------------------------------------------------------
# Jobs
# ------------------------------------------------------------------------------------------------
_DEADLINE = [None]


def case_hash(case):
    return hashlib.blake2b(json.dumps(case, sort_keys=True).encode(), digest_size=8).digest()


def nontrivial(case):
    if case["type"] == "prog":
        return program_stats(case["program"])["nested_ops"] >= 1
    return True      # every library circuit is nested (>= 4 sub-circuits before flattening)


def run_case(case, stats, verbose=False):
    with global_setting(case["G"]):
        if case["type"] == "prog":
            check_program(case, stats, verbose)
        elif case["type"] == "lib":
            check_library(case, stats, verbose)
        elif case["type"] == "multi":
            check_multi(case, stats, verbose)
        else:
            raise ValueError(case["type"])


def run_chunk(cases):
    stats = Stats()
    L()
    for case in cases:
        if _DEADLINE[0] is not None and time.time() > _DEADLINE[0]:
            stats.skip("time budget of the tier exhausted (" + case["type"] + ")")
            continue
        try:
            run_case(case, stats)
            if nontrivial(case):
                stats.hashes.add(case_hash(case))
        except Exception as e:  # harness problem: make it visible
            stats.skip("harness error: " + "".join(traceback.format_exception_only(type(e), e)).strip()[:300] +
                       " @ " + traceback.format_tb(e.__traceback__)[-1].strip()[:200])
        finally:
            common.clear_caches()
    return stats


# ------------------------------------------------------------------------------------------------
# Enumeration of inputs
# ------------------------------------------------------------------------------------------------
def op(k, q, **kw):
    it = {"k": k, "q": list(q) if isinstance(q, (list, tuple)) else [q]}
    it.update(kw)
    return it


def sub(items, reps=1):
    return {"k": "sub", "reps": reps, "items": items}


# reduced alphabet of the exhaustive part: fixed-duration waits 0/1/2/5 on channels ALL / MICROWAVE / FLUX, a microwave gate,
# two two-qubit flux gates, two measurements, two barriers; qubits 0..2
ALPHA12 = [op("Wait", 0, d=1.0, ch="ALL"), op("Wait", 1, d=2.0, ch="ALL"), op("Wait", 0, d=0.0, ch="MW"), op("Wait", 1, d=5.0, ch="FL"),
           op("Rx180", 0), op("Rx180", 1), op("CPhase", [0, 1]), op("CPhase", [1, 2]),
           op("DispersiveMeasure", 0, tag="a"), op("DispersiveMeasure", 1, tag="b"), op("Barrier", [0, 1, 2]), op("Barrier", [1])]
ALPHA6 = [op("Wait", 0, d=5.0, ch="ALL"), op("Wait", 1, d=0.0, ch="MW"), op("Rx180", 0), op("CPhase", [0, 1]),
          op("DispersiveMeasure", 1, tag="b"), op("Barrier", [0, 1])]
ALPHA4 = [op("Wait", 1, d=5.0, ch="FL"), op("Rx180", 0), op("CPhase", [0, 1]), op("DispersiveMeasure", 0, tag="a")]


def forests(n, depth):
    """ordered forests with exactly n nodes and height <= depth, as nested tuples (each node = tuple of its children)"""
    if n == 0:
        return [()]
    if depth == 0:
        return []
    out = []
    for k in range(1, n + 1):               # size of the first tree
        for kids in forests(k - 1, depth - 1):
            for rest in forests(n - k, depth):
                out.append((kids,) + rest)
    return out


def fill(forest, alphabet, reps_choices):
    """all programs of a forest shape: a node with children is a sub-circuit (every repetition count), a childless node is an
    operation of the alphabet"""
    def node_options(node):
        if len(node) == 0:
            return [dict(a) for a in alphabet]
        opts = []
        for kids in itertools.product(*[node_options(c) for c in node]):
            for r in reps_choices:
                opts.append(sub([json.loads(json.dumps(k)) for k in kids], r))
        return opts
    return [list(items) for items in itertools.product(*[node_options(t) for t in forest])]


def has_sub(forest):
    return any(len(t) > 0 for t in forest)


def exhaustive_programs(tier):
    """(programs, description of the finite space)"""
    thorough = tier == "thorough"
    progs = []
    plan = [(1, ALPHA12, True), (2, ALPHA12, True), (3, ALPHA12, True)]
    plan.append((4, ALPHA12 if thorough else ALPHA6, False))
    if thorough:
        plan.append((5, ALPHA4, False))
    text = []
    for n, alpha, with_flat in plan:
        cnt = 0
        for f in forests(n, 3):          # height 3 = operations inside a sub-circuit inside a sub-circuit (nesting depth 2)
            if not has_sub(f) and not with_flat:
                continue
            for items in fill(f, alpha, (1, 2, 3)):
                progs.append(items)
                cnt += 1
        text.append(f"{n} items over {len(alpha)} letters: {cnt}")
    # empty sub-circuits (a childless node may also be an empty sub-circuit): small separate family
    empties = []
    for r in (1, 2, 3):
        for a in ALPHA6:
            empties += [[sub([], r)], [dict(a), sub([], r)], [sub([], r), dict(a)], [dict(a), sub([], r), dict(a)],
                        [sub([sub([], r), dict(a)], 2)], [dict(a), sub([dict(a), sub([], r)], 2), dict(a)]]
    text.append(f"programs with an empty sub-circuit: {len(empties)}")
    return progs + empties, "; ".join(text)


def shape_programs():
    """fixed small programs around shapes that matter for flatten() (found by the random search, then reduced), so that every run
    evaluates them whatever the seed and the load of the machine:
    (a) a repeated block [operation on another qubit, sub-circuit with one operation, operation on the same channel as that one];
    (b) a repeated block [sub-circuit, repeated sub-circuit whose operations use two qubits]"""
    progs = []
    triples = [(op("Wait", 7, d=5.0, ch="FL"), op("Ry90", 2), op("Rxm90", 2)),
               (op("Wait", 1, d=5.0, ch="FL"), op("Rx180", 0), op("Rx180", 0)),
               (op("DispersiveMeasure", 1, tag="b"), op("Rx180", 0), op("Rx90", 0)),
               (op("Wait", 1, d=0.0, ch="ALL"), op("Rx180", 0), op("Rx180", 0)),
               (op("CPhase", [1, 2]), op("Rx180", 0), op("CPhase", [0, 1]))]
    for w, a, b in triples:
        for r_out in (2, 3):
            for r_in in (1, 2):
                progs.append([sub([dict(w), sub([dict(a)], r_in), dict(b)], r_out)])
                progs.append([dict(b), sub([dict(w), sub([dict(a)], r_in), dict(b)], r_out), dict(w)])
    for r_out in (2, 3):
        for r_in in (2, 3):
            progs.append([sub([sub([op("Wait", 0, d=2.0, ch="ALL")], 1), sub([op("Identity", 0), op("Barrier", [1]), op("VirtualPhase", 1)], r_in)], r_out)])
            progs.append([sub([sub([op("Wait", 0, d=5.0, ch="ALL")], 1), sub([op("Rx180", 0), op("Rx180", 1), op("Rx180", 1)], r_in)], r_out)])
            progs.append([sub([sub([op("Wait", 2, d=2.0, ch="ALL"), op("Wait", 0, d=2.0, ch="ALL")], 1),
                               sub([op("Identity", 0), op("Barrier", [1]), op("Ry180", 2), op("VirtualPhase", 1)], r_in)], r_out), op("Rx90", 2)])
    return progs


def kind_instances_norel(k, q1, q2, qall):
    out = []
    for inst in base.kind_instances(k, q1, q2, qall):
        inst = dict(inst)
        if k == "DispersiveMeasure":
            inst["tag"] = "t%d" % (q1 % 2)
        out.append(inst)
    return out


def random_program(rng):
    pool = rng.choice([[5, 0, 3], [2, 7], [1, 4, 0, 6], [0, 1, 2]])

    def items(depth, n):
        out = []
        for _ in range(n):
            if depth < 2 and rng.random() < 0.3:
                out.append(sub(items(depth + 1, rng.randint(0 if rng.random() < 0.1 else 1, 4)), rng.choice([1, 2, 2, 3])))
                continue
            k = rng.choice(base.ALL_KINDS)
            q1 = rng.choice(pool)
            q2 = rng.choice([q for q in pool if q != q1])
            out.append(dict(rng.choice(kind_instances_norel(k, q1, q2, rng.sample(pool, rng.randint(1, len(pool)))))))
        return out
    its = items(0, rng.randint(2, 6))
    if not any(i["k"] == "sub" for i in its):
        its.insert(rng.randrange(len(its) + 1), sub(items(1, rng.randint(1, 4)), rng.choice([1, 2, 3])))
    return its


def sub_chains(chain):
    n_data = (len(chain) + 1) // 2
    return [(2 * i, 2 * j + 1) for i in range(n_data) for j in range(i + 1, n_data)]


def library_cases(tier, rng):
    thorough = tier == "thorough"
    cases = []

    def rand_state(d):
        return [rng.randint(0, 1) for _ in range(d)], rng.choice([None, [rng.randint(0, 1) for _ in range(d - 1)]])

    def add(ctor, spec, data, anc, cycles, g):
        cases.append({"type": "lib", "ctor": ctor, "desc": spec, "data": data, "anc": anc, "cycles": cycles, "G": g})

    gs = ["file", "A", "B", "C"]
    # (1) chain from length: distances x cycles x refocusing x both constructors x global duration settings
    d_all = (2, 3, 4, 5) if thorough else (2, 3, 4)
    cyc_all = range(0, 9) if thorough else range(0, 7)
    k = 0
    for d in d_all:
        for cycles in cyc_all:
            for refocus in (True, False):
                for ctor in ("full", "simplified"):
                    spec = {"kind": "chain", "length": 2 * d - 1, "refocus": refocus}
                    states = [([0] * d, None), ([i % 2 for i in range(d)], [(i + 1) % 2 for i in range(d - 1)])]
                    if thorough:
                        states.append(rand_state(d))
                    for data, anc in states:
                        for g in (gs if (thorough or d <= 3) else [gs[k % 4]]):
                            k += 1
                            if not thorough and d == 4 and cycles > 4 and anc is not None:
                                continue
                            add(ctor, spec, data, anc, cycles, g)
    # all computational-basis states for d = 2, 3 (they decide which preparation gates exist)
    for d in (2, 3):
        for data in itertools.product((0, 1), repeat=d):
            for anc in [None] + [list(t) for t in itertools.product((0, 1), repeat=d - 1)]:
                for cycles in ((0, 1, 2, 3, 4) if thorough else (2, 3)):
                    for ctor in ("full", "simplified"):
                        k += 1
                        add(ctor, {"kind": "chain", "length": 2 * d - 1, "refocus": True}, list(data), anc, cycles, gs[k % 4])
    # (1b) default description (from the initial state), no requested state
    for d in (2, 3):
        for cycles in range(0, 5):
            for ctor in ("full", "simplified"):
                k += 1
                add(ctor, {"kind": "default", "length": 2 * d - 1}, [0] * d, None, cycles, gs[k % 4])
                add(ctor, {"kind": "chain", "length": 2 * d - 1, "refocus": True}, None, None, cycles, gs[(k + 1) % 4])
    # (2) larger distances
    for d in ((6, 7, 9) if thorough else (5, 7)):
        for cycles in ((0, 1, 2, 3, 4, 6) if thorough else (1, 3, 4)):
            for ctor in ("full", "simplified"):
                k += 1
                if not thorough and d == 7 and cycles > 3:
                    continue
                data, anc = rand_state(d)
                add(ctor, {"kind": "chain", "length": 2 * d - 1, "refocus": bool(k % 2)}, data, anc, cycles, gs[k % 4])
    # (3) contiguous data-to-data sub-chains of the Surface-17 repetition layouts (every one in the thorough tier)
    for lay, chain in LAYOUTS.items():
        for (s, e) in sub_chains(chain):
            d = (e - s + 1) // 2
            if not thorough and (d > 4 or (s // 2 + d) % 3):
                continue
            for cycles in ((0, 1, 2, 3, 4, 5) if thorough else (1, 3, 4)):
                if thorough and d >= 7 and cycles > 3:
                    continue
                k += 1
                data, anc = rand_state(d)
                spec = {"kind": "layout", "layout": lay, "start": s, "stop": e, "reverse": bool(k % 2), "refocus": bool((k // 2) % 2)}
                add("full" if k % 3 else "simplified", spec, data, anc, cycles, gs[k % 4])
    return cases


def multi_cases(tier, rng):
    thorough = tier == "thorough"
    lists = [p for r in (1, 2, 3) for p in itertools.permutations(range(0, 6), r)]
    if not thorough:
        lists = [p for p in lists if len(p) == 1] + [p for p in lists if len(p) == 2 and max(p) <= 4 and (p[0] + 2 * p[1]) % 3 == 0] + \
            rng.sample([p for p in lists if len(p) == 3 and sum(p) <= 9], 4)
    else:
        lists = [p for p in lists if len(p) <= 2] + rng.sample([p for p in lists if len(p) == 3], 40)
    lists += [(2, 2), (3, 3)]       # equal round counts
    cases = []
    gs = ["file", "A", "B", "C"]
    for n, p in enumerate(lists):
        specs = [{"kind": "chain", "length": 3, "refocus": True}, {"kind": "chain", "length": 5, "refocus": bool(n % 2)},
                 {"kind": "layout", "layout": "Repetition9Code", "start": 8, "stop": 13, "reverse": False, "refocus": True}]
        if not thorough:
            specs = [specs[n % 3]]
        for spec in specs:
            d = (len(involved_names(spec)) + 1) // 2
            data = [rng.randint(0, 1) for _ in range(d)]
            anc = rng.choice([None, [rng.randint(0, 1) for _ in range(d - 1)]])
            cases.append({"type": "multi", "desc": spec, "data": data, "anc": anc, "rounds": list(p), "G": gs[n % 4],
                          "whole": thorough or sum(p) <= 6})
    return cases


def cost(case):
    if case["type"] == "prog":
        return 1
    n = len(involved_names(case["desc"]))
    c = (sum(case["rounds"]) + 2 * len(case["rounds"]) + 2) if case["type"] == "multi" else case["cycles"] + 2
    return (n * c) ** 2 // 20 + 5


def make_cases(tier, seed):
    thorough = tier == "thorough"
    rng = random.Random(seed * 7919 + (1 if thorough else 0))
    gs = ["file", "A", "B", "C"]
    exh, exh_text = exhaustive_programs(tier)
    cases = {"shapes": [], "exhaustive": [], "random": [], "library": [], "multi": []}
    n = 0
    for items in shape_programs():
        for post in ("mod", "none"):
            for g in gs:
                cases["shapes"].append({"type": "prog", "program": {"items": items, "post": post}, "G": g})
    for items in exh:
        st = program_stats({"items": items})
        for post in ("none", "mod"):
            n += 1
            if post == "mod" and st["sub"] == 0:
                continue
            # the duration table matters only where "latest of a group" links exist (repeated sub-circuits after apply_modifiers)
            tabs = gs if (thorough and post == "mod" and st["rep"] and st["ops"] <= 3) else [gs[n % 4]]
            for g in tabs:
                cases["exhaustive"].append({"type": "prog", "program": {"items": items, "post": post}, "G": g})
    for _ in range(6000 if thorough else 1500):
        items = random_program(rng)
        for post in ("none", "mod"):
            n += 1
            cases["random"].append({"type": "prog", "program": {"items": items, "post": post}, "G": gs[n % 4]})
    cases["library"] = library_cases(tier, rng)
    cases["multi"] = multi_cases(tier, rng)
    return cases, exh_text


def chunks_of(cases, budget):
    """consecutive chunks of roughly equal cost"""
    out, cur, c = [], [], 0
    for case in cases:
        cur.append(case)
        c += cost(case)
        if c >= budget:
            out.append(cur)
            cur, c = [], 0
    if cur:
        out.append(cur)
    return out


def interleave(a, b):
    """a and b merged so that both run out at about the same time (a run cut short by the time budget has covered a share of each)"""
    out, i, j = [], 0, 0
    while i < len(a) or j < len(b):
        if j >= len(b) or (i < len(a) and i * len(b) <= j * len(a)):
            out.append(a[i])
            i += 1
        else:
            out.append(b[j])
            j += 1
    return out


def shrink_program(case, key, budget_s=8.0):
    """greedy reduction of a failing build program (drop items, unwrap / unrepeat sub-circuits) that keeps the failure key"""
    t0 = time.time()

    def still_fails(program):
        st = Stats()
        try:
            run_case({"type": "prog", "program": program, "G": case["G"]}, st)
        except Exception:  # noqa
            return False
        finally:
            common.clear_caches()
        return key in st.failures

    def variants(items):
        for i, it in enumerate(items):
            yield items[:i] + items[i + 1:]                                   # drop the item
            if it["k"] == "sub":
                if int(it.get("reps", 1)) > 1:
                    yield items[:i] + [dict(it, reps=int(it["reps"]) - 1)] + items[i + 1:]
                yield items[:i] + list(it["items"]) + items[i + 1:]           # unwrap
                for sub_items in variants(it["items"]):
                    yield items[:i] + [dict(it, items=sub_items)] + items[i + 1:]

    program = case["program"]
    changed = True
    while changed and time.time() - t0 < budget_s:
        changed = False
        for cand in variants(program["items"]):
            if time.time() - t0 > budget_s:
                break
            p = {"items": cand, "post": program.get("post", "none")}
            if still_fails(p):
                program, changed = p, True
                break
    return dict(case, program=program)


# ------------------------------------------------------------------------------------------------
# Main
# ------------------------------------------------------------------------------------------------
def _init_worker(deadline):
    _DEADLINE[0] = deadline
    L()


def main(argv=None):
    args = common.parse_args(argv)
    if args.replay:
        return replay(args.replay)
    res = common.Result(PROP)
    L()
    thorough = args.tier == "thorough"
    cases, exh_text = make_cases(args.tier, args.seed)
    deadline = time.time() + (540.0 if thorough else 52.0)
    order = random.Random(args.seed + 17)
    heavy_cases = cases["library"] + cases["multi"]
    light_cases = cases["exhaustive"] + cases["random"]
    order.shuffle(heavy_cases)       # deterministic; a run cut short by the time budget has covered a uniform share of every family
    order.shuffle(light_cases)
    # a first small chunk with the cheapest inputs of every family, so that even a badly overloaded machine evaluates each family
    smoke = sorted(cases["multi"], key=cost)[:2] + sorted(cases["library"], key=cost)[:4] + light_cases[:40] + cases["shapes"]
    smoke_ids = {id(c) for c in smoke}
    heavy_cases = [c for c in heavy_cases if id(c) not in smoke_ids]
    light_cases = [c for c in light_cases if id(c) not in smoke_ids]
    jobs = chunks_of(smoke, 60) + interleave(chunks_of(heavy_cases, 400), chunks_of(light_cases, 150))
    total = Stats()
    nproc = min(16, os.cpu_count() or 1)
    ctx = mp.get_context("fork")
    with ctx.Pool(nproc, initializer=_init_worker, initargs=(deadline,)) as pool:
        for st in pool.imap_unordered(run_chunk, jobs, chunksize=1):
            total.merge(st)

    n = total.n
    res.evaluations = sum(n.values())
    res.distinct = total.hashes
    budget_hit = any(k.startswith("time budget") for k in total.skipped)
    res.exhaustive = not budget_hit and not any(k.startswith("harness") for k in total.skipped)
    ncase = {k: len(v) for k, v in cases.items()}
    res.rule = (
        "(A) build programs WITHOUT explicit relations (implicit sequencing), JSON add-sequences with nested sub-circuits: EXHAUSTIVE over ordered "
        "forests of items (an item = an operation or a sub-circuit with repetition count 1..3, nesting depth <= 2) -- " + exh_text + " -- each as built "
        "('none') and after apply_modifiers ('mod'); reduced alphabet = fixed waits 0/1/2/5 on ALL/MICROWAVE/FLUX, Rx180, CPhase, tagged measurements, barriers "
        f"on qubits 0..2 ({ncase['exhaustive']} cases incl. duration tables); plus {ncase['shapes']} fixed cases around two reduced shapes (repeated block with a one-operation sub-circuit between two operations; repeated block of two sub-circuits) under every duration table; plus {ncase['random']} seeded-random programs (2..6 items per level, every operation "
        "kind of the library, zero-length operations, empty sub-circuits, depth <= 2, repetitions 1..3). "
        f"(B) {ncase['library']} modifier-applied library circuits: construct_repetition_code_circuit and ..._simplified x from_chain distances "
        f"{'2..5' if thorough else '2..4'} x cycles 0..{8 if thorough else 6} x refocusing on/off x states x global duration tables file/A/B/C "
        f"(C: zero-length decoupling waits), all basis states for d=2,3, default description, distances up to {9 if thorough else 7}, "
        f"{'every' if thorough else 'a third of the'} contiguous sub-chain{'' if thorough else 's (d<=4)'} of the three Surface-17 repetition layouts via from_connectivity. "
        f"(C) {ncase['multi']} inputs of construct_repetition_code_multi_round_circuit (round lists of <= 3 distinct values <= 5 in every order"
        f"{'' if thorough else ', sampled'}, equal values, three descriptions), compared round by round with the stand-alone unflattened rounds and flattened once more as a whole. "
        "Non-trivial = the input contains at least one operation inside a sub-circuit; distinct = distinct (input, duration table). "
        "'exhaustive' refers to part (A)'s forests and to the listed grids of (B)/(C); the random part is a sample.")
    res.samples = total.samples[:6]
    bound_a = f"{total.cases['prog']} build programs (tier {args.tier}, seed {args.seed})"
    bound_b = f"{total.cases['lib']} library circuits + {total.cases['multi-whole']} whole multi-round circuits (tier {args.tier}, seed {args.seed})"
    bound_c = f"{total.cases['multi']} multi-round constructor inputs (tier {args.tier}, seed {args.seed})"
    res.stand_ins = [
        {"function": "DeclarativeCircuit.flatten", "contract": "returns (no exception) for every built circuit", "bound": bound_a + "; " + bound_b, "evaluations": n["flatten-returns"]},
        {"function": "CircuitCompositeOperation.apply_flatten_to_self", "contract": "clause 'the multiset of leaf operations (kind, qubits, duration, tag) is unchanged': multiset of (kind, qubits, own-evaluated duration, acquisition tag / detector fields, channel identifiers) over the graph nodes found by an own pointer walk before == after; == multiset of flat.operations", "bound": bound_a + "; " + bound_b, "evaluations": n["multiset"]},
        {"function": "CircuitCompositeOperation.apply_flatten_to_self", "contract": "clause 'no sub-circuit remains': own pointer walk over the flattened graph finds no node holding a composite; composite_operations is empty", "bound": bound_a + "; " + bound_b, "evaluations": n["no-composite"]},
        {"function": "CircuitCompositeOperation.apply_flatten_to_self", "contract": "clause 'removes the nesting only': multiset of leaf operations weighted with the repetition counts of the enclosing sub-circuits is unchanged (differs only for circuits flattened WITHOUT apply_modifiers that hold a sub-circuit with repetition count != 1)", "bound": bound_a + "; " + bound_b, "evaluations": n["unrolled"]},
        {"function": "CircuitGraphBranch.add_to_graph (reference not in the graph -> link to the latest operation on the own channels)", "contract": "pre-condition of every later clause: the flattened circuit still has a schedule, i.e. following relation links (all references of a latest-of-group link) from any operation never returns to it [own walk over the link fields]; the library's circuit.operations is called as a witness when a cycle is found", "bound": bound_a + "; " + bound_b, "evaluations": n["acyclic"]},
        {"function": "CircuitCompositeOperation.apply_flatten_to_self / CircuitGraphBranch.add_to_graph", "contract": "clause 'flattening again changes nothing': after a second flatten() content, listing (same objects, same order), relation links (referenced objects, type), own-evaluated schedule, acquisition indices and Stim text are equal to those after the first (graph edges are only counted as a probe)", "bound": bound_a + "; " + bound_b, "evaluations": n["idempotent"]},
        {"function": "construct_repetition_code_circuit[_simplified] -> apply_modifiers -> flatten", "contract": "clause 'listing order identical': circuit.operations lists the same objects in the same order before and after", "bound": bound_b, "evaluations": n["lib-order"]},
        {"function": "construct_repetition_code_circuit[_simplified] -> apply_modifiers -> flatten (add_to_graph fallback re-links)", "contract": "clause 'schedule identical': start time and duration of every operation object, own evaluation of the relation equations over the link fields under the duration table in force (memo caches cleared), equal before and after", "bound": bound_b, "evaluations": n["lib-schedule"]},
        {"function": "construct_repetition_code_circuit[_simplified] -> apply_modifiers -> flatten", "contract": "clause 'acquisition indices identical': per measurement (acquisition_index, circuit_level_acquisition_index) and per qubit get_acquisition_indices equal before and after", "bound": bound_b, "evaluations": n["lib-acquisition"]},
        {"function": "construct_repetition_code_circuit[_simplified] -> apply_modifiers -> flatten -> to_stim", "contract": "clause 'exported Stim program identical': str(to_stim(circuit)) equal before and after", "bound": bound_b, "evaluations": n["lib-stim"]},
        {"function": "construct_repetition_code_multi_round_circuit", "contract": "the constructor's circuit (apply_modifiers + flatten per round) lists round 1, barrier, round 2, barrier, ..., calibration, where every round equals the same round built stand-alone, modifier-applied and NOT flattened: multiset per round, listing order, own-evaluated schedule relative to the round's first operation, acquisition indices (= stand-alone indices + number of measurements of earlier rounds, per qubit and per circuit), Stim text (= concatenation with Stim's own API, TICK per barrier)", "bound": bound_c, "evaluations": n["multi-content"] + n["multi-order"] + n["multi-schedule"] + n["multi-acquisition"] + n["multi-stim"]},
    ]
    pr = total.probe
    res.probes = [
        {"assumption": f"the library's schedule read with fresh memos equals the own evaluator before and after flatten ({pr['oracle_vs_library_checked']} observations, "
                       f"{pr['oracle_vs_library_mismatch']} mismatches); the duration of a sub-circuit is the span from the earliest start to the latest end over all operations it contains (bounded/c18.py's Evaluator; the library's definition since the C04 repair)",
         "ok": pr["oracle_vs_library_mismatch"] == 0},
        {"assumption": f"flatten() keeps the operation objects of library circuits (replaced in {pr['lib_objects_replaced']} cases); order and schedule are compared per object", "ok": pr["lib_objects_replaced"] == 0},
        {"assumption": f"outside the statement (arbitrary modifier-applied build programs, {pr['prog_mod_cases']} cases): flatten changes the listing order in {pr['prog_order_changes']} and "
                       f"the schedule of some operation in {pr['prog_schedule_changes']} of them (an operation that followed a sub-circuit is re-linked to the latest operation on its own channels)", "ok": True},
        {"assumption": f"a second flatten() re-wires graph edges without any observable change in {pr['second_flatten_changes_graph_edges']} cases (internal; not judged)", "ok": True},
        {"assumption": "every family was evaluated", "ok": all(total.cases[k] > 0 for k in ("prog", "lib", "multi"))},
    ]
    for key, f in list(total.failures.items()):
        f.pop("_size", None)
        left = deadline + (6.0 if not thorough else 30.0) - time.time()
        if f["witness"].get("type") == "prog" and left > 1.0:
            small = shrink_program(f["witness"], key, budget_s=min(6.0, left))
            if small["program"] != f["witness"]["program"]:
                st = Stats()
                run_case(small, st)
                common.clear_caches()
                if key in st.failures:
                    g = st.failures[key]
                    g.pop("_size", None)
                    total.failures[key] = g
    res.failures = total.failures
    res.skipped = total.skipped
    out = res.write(args.out)
    print(f"{PROP} bounded: {out['evaluations']} evaluations, cases {dict(total.cases)}, {out['distinct_nontrivial']} distinct non-trivial, "
          f"{len(out['failures'])} failure keys, skipped {out['skipped']}, {out['wall_s']} s")
    for f in out["failures"]:
        print("  FAILURE", f["key"])
    harness = [k for k in out["skipped"] if k.startswith("harness error")]
    if harness or not all(total.cases[k] > 0 for k in ("prog", "lib", "multi")):
        print("HARNESS ERROR:", harness or "a family was not evaluated")
        return 2
    return 0


def replay(path):
    rec, a = common.load_replay(path)
    key = a.get("key") or rec.get("key") or rec.get("id") or rec.get("obligation")
    case = {k: v for k, v in a.items() if k != "key"}
    print(f"replaying {key}")
    print(" input:", json.dumps(case))
    stats = Stats()
    L()
    run_case(case, stats, verbose=True)
    print(" failure keys now:", sorted(stats.failures))
    if key in stats.failures:
        f = stats.failures[key]
        print(" observed:", json.dumps(f["observed"], default=str))
        print(" required:", json.dumps(f["required"], default=str))
        print(f"VIOLATION property={PROP} replay={path}")
        return 1
    print(" the recorded failure does not reproduce")
    return 0


if __name__ == "__main__":
    sys.exit(main())
