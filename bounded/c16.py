#!/venv/bin/python
"""Bounded (tier B) stand-in for property C16 -- simultaneous two-qubit gates on Surface-17.

The domain of the top-level statement is finite, so the acceptance / parking clauses are decided by
complete enumeration on the REAL predicates (`GateSequenceGenerator.get_mutually_allowed`,
`OperationConstraint`, `get_requires_parking`, `on_moving_side`, `FrequencyGroupIdentifier`), compared with
a specification evaluator written from the property statement over a *hard-coded* reference description of
the Surface-17 device (stabiliser supports + frequency levels as plain ints).  Nothing of the oracle calls
into `qce_circuit`.

Spec (DESIGN.md section 5, C16):
  level(g)   = min(freq(a), freq(b))                        (both members operate at the lower member's level)
  accept(S) <=> gates of S pairwise qubit-disjoint  and  for all device neighbours q1 ~ q2 that belong to
                different gates g1, g2 of S: level(g1) != level(g2)
  park(q,S) <=> q in no gate of S  and  exists g in S: q ~ high(g) and freq(q) == level(g)   (S qubit-disjoint)
  sequences : every emitted sequence uses each requested gate exactly once; every step satisfies accept.
"""
import os
import sys

os.environ.setdefault("TQDM_DISABLE", "1")      # progress bars of the generator (read by tqdm at import)
os.environ.setdefault("MPLBACKEND", "Agg")

import itertools
import json
import math
import random
import time
import multiprocessing as mp
from collections import Counter

sys.path.insert(0, os.path.dirname(os.path.dirname(os.path.abspath(__file__))))
from bounded import common  # noqa: E402

PROP = "C16"

# ------------------------------------------------------------------------------------------------------
# Reference device (independent of the library tables): stabiliser supports and frequency levels
# ------------------------------------------------------------------------------------------------------
LOW, MID, HIGH = 0, 1, 2
LEVEL_NAME = {LOW: "LOW", MID: "MID", HIGH: "HIGH"}
STABILISERS = {
    "X1": ("D1", "D2"), "X2": ("D2", "D3", "D5", "D6"), "X3": ("D4", "D5", "D7", "D8"), "X4": ("D8", "D9"),
    "Z1": ("D1", "D2", "D4", "D5"), "Z2": ("D3", "D6"), "Z3": ("D4", "D7"), "Z4": ("D5", "D6", "D8", "D9"),
}
QUBITS = ["D%d" % i for i in range(1, 10)] + ["X%d" % i for i in range(1, 5)] + ["Z%d" % i for i in range(1, 5)]
QI = {n: i for i, n in enumerate(QUBITS)}
FREQ_BY_NAME = {q: MID for q in QUBITS}
FREQ_BY_NAME.update({"D1": LOW, "D2": LOW, "D3": LOW, "D7": LOW, "D8": LOW, "D9": LOW, "D4": HIGH, "D5": HIGH, "D6": HIGH})
FREQ = [FREQ_BY_NAME[q] for q in QUBITS]
EDGE_NAMES = sorted((d, a) for a, ds in STABILISERS.items() for d in ds)          # 24 x (data, ancilla)
NE, NQ = len(EDGE_NAMES), len(QUBITS)
EQ = [(QI[a], QI[b]) for a, b in EDGE_NAMES]                                        # edge -> qubit indices
EI = {frozenset(p): i for i, p in enumerate(EQ)}
ADJ = [set() for _ in QUBITS]
for _a, _b in EQ:
    ADJ[_a].add(_b)
    ADJ[_b].add(_a)
assert NE == 24 and NQ == 17 and all(FREQ[a] != FREQ[b] for a, b in EQ)
LEVEL = [min(FREQ[a], FREQ[b]) for a, b in EQ]
HI = [a if FREQ[a] > FREQ[b] else b for a, b in EQ]
LO = [b if FREQ[a] > FREQ[b] else a for a, b in EQ]


# ------------------------------------------------------------------------------------------------------
# Specification evaluator (pure, over indices)
# ------------------------------------------------------------------------------------------------------
def spec_disjoint(S):
    qs = [q for e in S for q in EQ[e]]
    return len(set(qs)) == len(qs)


def spec_collisions(S):
    """[(g1, g2, q1, q2)]: neighbouring qubits of two different gates that end up at the same level"""
    out = []
    for i, g1 in enumerate(S):
        for g2 in S[i + 1:]:
            if g1 == g2 or LEVEL[g1] != LEVEL[g2]:
                continue
            for q1 in EQ[g1]:
                for q2 in EQ[g2]:
                    if q2 in ADJ[q1]:
                        out.append((g1, g2, q1, q2))
    return out


def spec_accept(S):
    return spec_disjoint(S) and not spec_collisions(S)


def spec_park(q, S):
    if any(q in EQ[e] for e in S):
        return False
    return any(q in ADJ[HI[e]] and FREQ[q] == LEVEL[e] for e in S)


def spec_partitions(n, k):
    """all partitions of range(n) into blocks of exactly k (own enumeration: smallest free element first)"""
    if k <= 0 or n % k:
        return
    def rec(rest):
        if not rest:
            yield ()
            return
        first, others = rest[0], rest[1:]
        for comb in itertools.combinations(others, k - 1):
            block = (first,) + comb
            left = tuple(x for x in others if x not in comb)
            for tail in rec(left):
                yield (block,) + tail
    yield from rec(tuple(range(n)))


# ------------------------------------------------------------------------------------------------------
# Real objects (public API of the library)
# ------------------------------------------------------------------------------------------------------
class Ctx:
    def __init__(self):
        from qce_circuit.connectivity.connectivity_surface_code import (
            Surface17Layer, get_requires_parking, on_moving_side, get_higher_frequency_qubit_id, get_lower_frequency_qubit_id)
        from qce_circuit.connectivity.mapping.gate_sequence_generator import (
            GateSequenceGenerator, OperationConstraint)
        from qce_circuit.connectivity.intrf_connectivity_gate_sequence import Operation, OperationType
        from qce_circuit.connectivity.intrf_channel_identifier import EdgeIDObj, QubitIDObj
        from qce_circuit.connectivity.intrf_connectivity_surface_code import FrequencyGroup, FrequencyGroupIdentifier
        from qce_circuit.utilities.custom_exceptions import ExceedingCombinationCountException
        self.conn = Surface17Layer()
        self.get_requires_parking = get_requires_parking
        self.on_moving_side = on_moving_side
        self.get_higher = get_higher_frequency_qubit_id
        self.get_lower = get_lower_frequency_qubit_id
        self.Gen = GateSequenceGenerator
        self.OC = OperationConstraint
        self.Operation = Operation
        self.OperationType = OperationType
        self.EdgeIDObj = EdgeIDObj
        self.QubitIDObj = QubitIDObj
        self.FG = FrequencyGroup
        self.FGI = FrequencyGroupIdentifier
        self.Exceeding = ExceedingCombinationCountException
        self.Q = [QubitIDObj(n) for n in QUBITS]

    def edge(self, e, flip=False):
        a, b = EQ[e]
        return self.EdgeIDObj(self.Q[b], self.Q[a]) if flip else self.EdgeIDObj(self.Q[a], self.Q[b])

    def gate(self, e, flip=False):
        return self.Operation.type_gate(self.edge(e, flip))

    def edge_index(self, edge_id):
        names = [getattr(q, "id", None) for q in edge_id.qubit_ids]
        return EI.get(frozenset(QI.get(n, -1) for n in names))


_CTX = None


def ctx():
    global _CTX
    if _CTX is None:
        _CTX = Ctx()
    return _CTX


def oriented_names(L):
    """[(edge index, flip)] -> [[name, name], ...] in the order/orientation handed to the library"""
    out = []
    for e, f in L:
        a, b = EDGE_NAMES[e]
        out.append([b, a] if f else [a, b])
    return out


def names_to_oriented(edges):
    L = []
    for a, b in edges:
        e = EI[frozenset((QI[a], QI[b]))]
        L.append((e, EDGE_NAMES[e][0] != a))
    return L


def F(key, clause, function, witness, observed, required, replay_args, sort):
    return {"key": "%s:%s" % (PROP, key), "clause": clause, "function": function, "witness": witness,
            "observed": observed, "required": required, "replay_args": replay_args, "_sort": sort}


# ------------------------------------------------------------------------------------------------------
# Clause evaluations on the real code.  Each returns (number of evaluations, [failures])
# ------------------------------------------------------------------------------------------------------
CL_ACCEPT = ("get_mutually_allowed(gates of S) == [S qubit-disjoint and no two device-neighbours of different gates "
             "share an operating level, level(g) = lower member's frequency level]")
CL_PARK = ("get_requires_parking(q, S) == [q in no gate of S and q neighbours the higher-frequency member of some g in S "
           "and freq(q) == level(g)]")
CL_SEQ_ONCE = "every emitted sequence uses each requested gate exactly once"
CL_SEQ_ACC = "every step of every emitted sequence satisfies accept(step)"
CL_SEQ_PARK = "get_required_parkings(step) == {q : park(q, step)} for every step of an emitted sequence"


def check_accept(L):
    """L: [(edge index, flip)] in the order handed to the library"""
    c = ctx()
    S = [e for e, _ in L]
    wit = {"edges": oriented_names(L)}
    rep = {"check": "accept", "edges": oriented_names(L)}
    sort = (len(S), sorted(S), [f for _, f in L])
    fn = "GateSequenceGenerator.get_mutually_allowed"
    required = spec_accept(S)
    try:
        real = bool(c.Gen.get_mutually_allowed([c.gate(e, f) for e, f in L], c.conn))
    except Exception as ex:  # the predicate is total on device edges
        return 1, [F("get_mutually_allowed:raises-%s" % type(ex).__name__, CL_ACCEPT, fn, wit, repr(ex), required, rep, sort)]
    if real == required:
        return 1, []
    if real:
        if not spec_disjoint(S):
            key = "get_mutually_allowed:accepts-gates-sharing-a-qubit"
            wit["shared"] = sorted(QUBITS[q] for q, n in Counter(q for e in S for q in EQ[e]).items() if n > 1)
        else:
            g1, g2, q1, q2 = spec_collisions(S)[0]
            key = "get_mutually_allowed:accepts-collision-at-%s-level" % LEVEL_NAME[LEVEL[g1]]
            wit["collision"] = {"gates": [list(EDGE_NAMES[g1]), list(EDGE_NAMES[g2])], "neighbours": [QUBITS[q1], QUBITS[q2]],
                                "level": LEVEL_NAME[LEVEL[g1]]}
    else:
        # smallest rejected sub-pair names the class
        pair = None
        for (e1, f1), (e2, f2) in itertools.combinations(L, 2):
            try:
                if not c.Gen.get_mutually_allowed([c.gate(e1, f1), c.gate(e2, f2)], c.conn):
                    pair = (e1, e2)
                    break
            except Exception:
                pass
        if pair is None:
            key = "get_mutually_allowed:rejects-collision-free-set-whose-pairs-are-accepted"
        else:
            e1, e2 = pair
            adjacent = any(q2 in ADJ[q1] for q1 in EQ[e1] for q2 in EQ[e2])
            lv = sorted((LEVEL[e1], LEVEL[e2]))
            if adjacent:
                key = "get_mutually_allowed:rejects-adjacent-gates-at-levels-%s-%s" % (LEVEL_NAME[lv[0]], LEVEL_NAME[lv[1]])
            else:
                key = "get_mutually_allowed:rejects-non-adjacent-gates"
            wit["rejected_pair"] = [list(EDGE_NAMES[e1]), list(EDGE_NAMES[e2])]
    return 1, [F(key, CL_ACCEPT, fn, wit, real, required, rep, sort)]


def check_park(L, qubits=None):
    """all qubits (or the given ones) against park(q, S); S must be qubit-disjoint for the failure clause"""
    c = ctx()
    S = [e for e, _ in L]
    edges = [c.edge(e, f) for e, f in L]
    fails, n = [], 0
    fn = "get_requires_parking"
    for q in (range(NQ) if qubits is None else qubits):
        wit = {"edges": oriented_names(L), "qubit": QUBITS[q]}
        rep = {"check": "park", "edges": oriented_names(L), "qubit": QUBITS[q]}
        sort = (len(S), sorted(S), q)
        required = spec_park(q, S)
        n += 1
        try:
            real = bool(c.get_requires_parking(c.Q[q], edges, c.conn))
        except Exception as ex:
            fails.append(F("get_requires_parking:raises-%s" % type(ex).__name__, CL_PARK, fn, wit, repr(ex), required, rep, sort))
            continue
        if real == required:
            continue
        if required:
            g = next(e for e in S if q in ADJ[HI[e]] and FREQ[q] == LEVEL[e])
            key = "get_requires_parking:misses-idle-qubit-at-%s-level-next-to-moving-member" % LEVEL_NAME[LEVEL[g]]
            wit["gate"] = list(EDGE_NAMES[g])
        elif any(q in EQ[e] for e in S):
            key = "get_requires_parking:reports-qubit-that-is-in-a-gate"
        elif not any(q in ADJ[m] for e in S for m in EQ[e]):
            key = "get_requires_parking:reports-qubit-not-neighbouring-any-gate"
        elif not any(q in ADJ[HI[e]] for e in S):
            key = "get_requires_parking:reports-neighbour-of-static-member-only"
        else:
            key = "get_requires_parking:reports-qubit-idling-at-other-level-than-the-gate"
        fails.append(F(key, CL_PARK, fn, wit, real, required, rep, sort))
    return n, fails


def check_order():
    """FrequencyGroupIdentifier: strict total order LOW < MID < HIGH"""
    c = ctx()
    fails, n = [], 0
    for a in (LOW, MID, HIGH):
        for b in (LOW, MID, HIGH):
            A = c.FGI(_id=c.FG[LEVEL_NAME[a]])
            B = c.FGI(_id=c.FG[LEVEL_NAME[b]])
            for name, req in (("is_equal_to", a == b), ("is_higher_than", a > b), ("is_lower_than", a < b)):
                n += 1
                try:
                    real = bool(getattr(A, name)(B))
                except Exception as ex:
                    real = repr(ex)
                if real != req:
                    w = {"self": LEVEL_NAME[a], "other": LEVEL_NAME[b], "method": name}
                    fails.append(F("FrequencyGroupIdentifier.%s:%s-vs-%s" % (name, LEVEL_NAME[a], LEVEL_NAME[b]),
                                   "LOW < MID < HIGH is a strict total order (%s)" % name, "FrequencyGroupIdentifier." + name, w, real, req,
                                   {"check": "order"}, (0, a, b)))
    return n, fails


def check_layout():
    """the library's Surface-17 tables equal the reference device the spec is evaluated on"""
    c = ctx()
    fails, n = [], 0
    rep = {"check": "layout"}

    def names(qs):
        return sorted(getattr(q, "id", repr(q)) for q in qs)
    n += 1
    real_q = names(c.conn.qubit_ids)
    if real_q != sorted(QUBITS):
        fails.append(F("layout:qubit-set-differs", "Surface-17 has the 17 qubits D1-9, X1-4, Z1-4 exactly once", "Surface17Layer.qubit_ids", {},
                       real_q, sorted(QUBITS), rep, (0,)))
    n += 1
    real_e = sorted(tuple(names(e.qubit_ids)) for e in c.conn.edge_ids)
    ref_e = sorted(tuple(sorted(p)) for p in EDGE_NAMES)
    if real_e != ref_e:
        diff = {"missing": sorted(set(ref_e) - set(real_e)), "extra": sorted(set(real_e) - set(ref_e)),
                "repeated": sorted(k for k, v in Counter(real_e).items() if v > 1)}
        fails.append(F("layout:edge-table-differs", "the 24 edges are the ancilla-data pairs of the eight stabilisers, each once",
                       "Surface17Layer.edge_ids", diff, len(real_e), 24, rep, (0,)))
    for q in range(NQ):
        n += 1
        try:
            real = c.conn.get_frequency_group_identifier(c.Q[q]).id.name
        except Exception as ex:
            real = repr(ex)
        if real != LEVEL_NAME[FREQ[q]]:
            fails.append(F("layout:frequency-level-differs", "D4-D6 HIGH, ancillas MID, other data qubits LOW",
                           "Surface17Layer.get_frequency_group_identifier", {"qubit": QUBITS[q]}, real, LEVEL_NAME[FREQ[q]], rep, (q,)))
        n += 1
        try:
            real = names(c.conn.get_neighbors(c.Q[q]))
        except Exception as ex:
            real = repr(ex)
        req = sorted(QUBITS[x] for x in ADJ[q])
        if real != req:
            fails.append(F("layout:neighbours-differ", "get_neighbors(q) = the qubits sharing an edge with q, each once",
                           "Surface17Layer.get_neighbors", {"qubit": QUBITS[q]}, real, req, rep, (q,)))
        n += 1
        try:
            real = sorted(tuple(names(e.qubit_ids)) for e in c.conn.get_edges(c.Q[q]))
        except Exception as ex:
            real = repr(ex)
        req = sorted(tuple(sorted(EDGE_NAMES[e])) for e in range(NE) if q in EQ[e])
        if real != req:
            fails.append(F("layout:edges-of-qubit-differ", "get_edges(q) = the edges containing q, each once",
                           "Surface17Layer.get_edges", {"qubit": QUBITS[q]}, real, req, rep, (q,)))
    return n, fails


def check_moving():
    """on_moving_side / get_higher_frequency_qubit_id / get_lower_frequency_qubit_id on all edges x qubits x orientations"""
    c = ctx()
    fails, n = [], 0
    for e in range(NE):
        for flip in (False, True):
            edge = c.edge(e, flip)
            en = oriented_names([(e, flip)])[0]
            for q in range(NQ):
                n += 1
                req = (q == HI[e])
                try:
                    real = bool(c.on_moving_side(c.Q[q], edge, c.conn))
                except Exception as ex:
                    real = repr(ex)
                if real != req:
                    kind = "higher-member-not-moving" if req else ("lower-member-moving" if q == LO[e] else "outsider-moving")
                    fails.append(F("on_moving_side:%s" % kind, "on_moving_side(q, g) == [q is the higher-frequency member of g]",
                                   "on_moving_side", {"qubit": QUBITS[q], "edge": en}, real, req,
                                   {"check": "moving", "qubit": QUBITS[q], "edge": en}, (e, flip, q)))
            for fname, fn, want in (("get_higher_frequency_qubit_id", c.get_higher, HI[e]), ("get_lower_frequency_qubit_id", c.get_lower, LO[e])):
                n += 1
                try:
                    real = getattr(fn(edge, c.conn), "id", None)
                except Exception as ex:
                    real = repr(ex)
                if real != QUBITS[want]:
                    fails.append(F("%s:wrong-member" % fname, "%s(g) is the %s-frequency member of g" % (fname, "higher" if want == HI[e] else "lower"),
                                   fname, {"edge": en}, real, QUBITS[want], {"check": "moving", "edge": en}, (e, flip)))
    return n, fails


def check_constraint(e):
    """OperationConstraint of one gate g: idle(q) forbidden <=> park(q,{g});  gate h allowed by g and g by h <=> accept({g,h}).
    returns also the number of one-directional asymmetries (probe only)"""
    c = ctx()
    fails, n, asym = [], 0, 0
    g = c.gate(e)
    en = list(EDGE_NAMES[e])
    try:
        oc = c.Gen.construct_operation_constraints(g, c.conn)
        allowed = oc.get_allowed_operations(c.conn)
        forbidden = oc.constraint_operations
    except Exception as ex:
        return 1, [F("construct_operation_constraints:raises-%s" % type(ex).__name__, "constraints of a device edge can be built",
                     "GateSequenceGenerator.construct_operation_constraints", {"edge": en}, repr(ex), None, {"check": "constraint", "edge": en}, (e,))], 0
    for q in range(NQ):
        if q in EQ[e]:
            continue
        n += 1
        idle = c.Operation.type_idle(c.Q[q])
        real = (idle in forbidden) and (idle not in allowed)
        incoherent = (idle in forbidden) == (idle in allowed)
        req = spec_park(q, [e])
        if real != req or incoherent:
            key = "get_forbidden_operations:idle-%s" % ("not-forbidden-for-qubit-requiring-parking" if req else "forbidden-for-qubit-not-requiring-parking")
            fails.append(F(key, "for a single active gate g and q outside g: Idle(q) is forbidden <=> park(q, {g})",
                           "OperationConstraint.get_forbidden_operations", {"edge": en, "qubit": QUBITS[q]}, real, req,
                           {"check": "constraint", "edge": en}, (e, q)))
    n += 1
    if g not in allowed:
        fails.append(F("get_allowed_operations:gate-forbids-itself", "a gate is allowed by its own constraints (accept({g}) holds)",
                       "OperationConstraint.get_allowed_operations", {"edge": en}, False, True, {"check": "constraint", "edge": en}, (e,)))
    for h in range(NE):
        if h != e and (c.gate(h) in allowed) != spec_accept([e, h]):
            asym += 1
    return n, fails, asym


def check_sequences(L, k, deep=3):
    """construct_allowed_gate_sequences on the edge list L with subgroup size k.
    returns (evaluations, failures, info)"""
    c = ctx()
    S = [e for e, _ in L]
    wit0 = {"edges": oriented_names(L), "subgroup_size": k}
    rep = {"check": "sequence", "edges": oriented_names(L), "subgroup_size": k}
    sort = (len(L), k, S)
    fn = "GateSequenceGenerator.construct_allowed_gate_sequences"
    info = {"emitted": 0, "skipped": None, "multi": 0, "missing": 0, "duplicates": 0, "expected": 0}
    gen = c.Gen(included_edge_ids=[c.edge(e, f) for e, f in L], connectivity=c.conn)
    try:
        ident = gen.construct_allowed_gate_sequences(subgroup_size=k)
    except c.Exceeding:
        info["skipped"] = "exceeds the generator's combination limit"
        return 0, [], info
    except Exception as ex:
        return 1, [F("construct_allowed_gate_sequences:raises-%s" % type(ex).__name__, CL_SEQ_ONCE, fn, wit0, repr(ex), None, rep, sort)], info
    fails, n = [], 0
    want = Counter(S)
    emitted = []
    for i in range(ident.length):
        n += 1
        try:
            seq = ident.construct_operation_sequence_at(i)
            steps_ops = seq.operations
            steps = [[c.edge_index(op.identifier) if op.type == c.OperationType.GATE else None for op in step] for step in steps_ops]
        except Exception as ex:
            fails.append(F("construct_operation_sequence_at:raises-%s" % type(ex).__name__, CL_SEQ_ONCE, "GateSequenceIdentifier.construct_operation_sequence_at",
                           dict(wit0, index=i), repr(ex), None, rep, sort))
            continue
        flat = [e for st in steps for e in st]
        wit = dict(wit0, index=i, sequence=[[list(EDGE_NAMES[e]) if e is not None else None for e in st] for st in steps])
        got = Counter(flat)
        if got != want:
            if None in got:
                key = "construct_allowed_gate_sequences:emits-operation-that-is-no-device-gate"
            elif any(e not in want for e in got):
                key = "construct_allowed_gate_sequences:emits-gate-that-was-not-requested"
            elif any(got[e] > want[e] for e in got):
                key = "construct_allowed_gate_sequences:emits-requested-gate-more-than-once"
            else:
                key = "construct_allowed_gate_sequences:omits-requested-gate"
            fails.append(F(key, CL_SEQ_ONCE, fn, wit, {str(list(EDGE_NAMES[e]) if e is not None else None): v for e, v in got.items()},
                           "each requested gate exactly once", rep, sort))
        # index pointers themselves (what the emitted identifier stores)
        ptr = [p for st in ident.index_pointers[i] for p in st]
        if sorted(ptr) != list(range(len(L))):
            fails.append(F("construct_allowed_gate_sequences:index-pointers-are-no-permutation", CL_SEQ_ONCE, fn, dict(wit, index_pointers=ident.index_pointers[i]),
                           sorted(ptr), list(range(len(L))), rep, sort))
        for st in steps:
            st_e = [e for e in st if e is not None]
            if len(st_e) > 1:
                info["multi"] += 1
            if not spec_accept(st_e):
                if not spec_disjoint(st_e):
                    key = "construct_allowed_gate_sequences:emits-step-with-gates-sharing-a-qubit"
                else:
                    key = "construct_allowed_gate_sequences:emits-step-with-collision-at-%s-level" % LEVEL_NAME[LEVEL[spec_collisions(st_e)[0][0]]]
                fails.append(F(key, CL_SEQ_ACC, fn, dict(wit, step=[list(EDGE_NAMES[e]) for e in st_e]), "emitted", "accept(step)", rep, sort))
        emitted.append(frozenset(frozenset(p for p in st) for st in ident.index_pointers[i]))
        # parking reported for the emitted steps (first few sequences)
        if i < deep:
            try:
                parks = seq.get_required_parkings(c.conn)
            except Exception as ex:
                fails.append(F("get_required_parkings:raises-%s" % type(ex).__name__, CL_SEQ_PARK, "OperationSequence.get_required_parkings", wit, repr(ex), None, rep, sort))
                parks = None
            if parks is not None:
                n += 1
                real = [sorted(getattr(op.identifier, "id", "?") for op in ps) for ps in parks]
                req = [sorted(QUBITS[q] for q in range(NQ) if spec_park(q, [e for e in st if e is not None])) for st in steps]
                disjoint = all(spec_disjoint([e for e in st if e is not None]) for st in steps)
                if real != req and disjoint:
                    fails.append(F("get_required_parkings:differs-from-park-spec", CL_SEQ_PARK, "OperationSequence.get_required_parkings", wit, real, req, rep, sort))
    info["emitted"] = len(emitted)
    # probe only (not part of the statement): completeness / duplicates against own partition enumeration
    if len(L) <= 10:
        exp = set()
        for part in spec_partitions(len(L), k):
            if all(spec_accept([S[p] for p in block]) for block in part):
                exp.add(frozenset(frozenset(b) for b in part))
        info["expected"] = len(exp)
        info["missing"] = len(exp - set(emitted))
        info["duplicates"] = len(emitted) - len(set(emitted))
    else:
        info["expected"] = -1
    return n, fails, info


# ------------------------------------------------------------------------------------------------------
# Work distribution
# ------------------------------------------------------------------------------------------------------
def _variant(S, seed):
    """a seeded random order + orientation of the subset S (tuple of edge indices)"""
    r = random.Random(seed * 1000003 + sum((e + 1) * 29 ** i for i, e in enumerate(S)))
    P = list(S)
    r.shuffle(P)
    return [(e, r.random() < 0.5) for e in P]


def work(task):
    kind = task[0]
    out = {"n": Counter(), "fails": [], "info": Counter(), "samples": []}

    def add(tag, res):
        out["n"][tag] += res[0]
        out["fails"].extend(res[1])
    if kind == "subsets":
        _, subsets, seed, all_variants, extra = task
        for S in subsets:
            canon = [(e, False) for e in S]
            variants = [canon]
            if all_variants and len(S) <= 2:
                variants = [[(e, f) for e, f in zip(P, fl)] for P in itertools.permutations(S) for fl in itertools.product((False, True), repeat=len(S))]
            else:
                for x in range(extra):
                    variants.append(_variant(S, seed + 7919 * x))
            disjoint = spec_disjoint(list(S))
            for L in variants:
                add("accept", check_accept(L))
                if disjoint:
                    add("park", check_park(L))
                else:
                    # outside the property's domain ("active gates" are simultaneous, hence disjoint): probe only
                    n, fl = check_park(L)
                    out["info"]["park_overlap_evals"] += n
                    out["info"]["park_overlap_disagree"] += len(fl)
                    if fl and not out["samples"]:
                        f0 = fl[0]
                        out["samples"].append({"edges": f0["witness"]["edges"], "qubit": f0["witness"]["qubit"], "observed": f0["observed"], "spec": f0["required"]})
            out["info"]["subsets"] += 1
            out["info"]["subsets_nontrivial"] += 1 if len(S) >= 2 else 0
            out["info"]["subsets_disjoint"] += 1 if disjoint else 0
            out["info"]["subsets_accepted_by_spec"] += 1 if spec_accept(list(S)) else 0
    elif kind == "constraints":
        for e in task[1]:
            n, fl, asym = check_constraint(e)
            add("constraint", (n, fl))
            out["info"]["one_direction_asymmetries"] += asym
    elif kind == "sequences":
        for L, k in task[1]:
            n, fl, info = check_sequences(L, k)
            add("sequence", (n, fl))
            if info["skipped"]:
                out["info"]["seq_skipped:" + info["skipped"]] += 1
                continue
            out["info"]["seq_inputs"] += 1
            out["info"]["seq_emitted"] += info["emitted"]
            out["info"]["seq_inputs_emitting"] += 1 if info["emitted"] else 0
            out["info"]["seq_inputs_nontrivial"] += 1 if info["multi"] else 0
            out["info"]["seq_missing"] += info["missing"]
            out["info"]["seq_duplicates"] += info["duplicates"]
            out["info"]["seq_expected"] += max(info["expected"], 0)
            if (info["missing"] or info["duplicates"]) and not out["samples"]:
                out["samples"].append({"edges": oriented_names(L), "subgroup_size": k, "emitted": info["emitted"], "spec_valid_partitions": info["expected"],
                                       "missing": info["missing"], "duplicates": info["duplicates"]})
    return out


def chunks(seq, size):
    seq = list(seq)
    return [seq[i:i + size] for i in range(0, len(seq), size)]


TEST_CHAIN = [["D5", "Z1"], ["Z1", "D1"], ["D1", "X1"], ["X1", "D2"], ["D2", "X2"], ["X2", "D3"], ["D3", "Z2"], ["Z2", "D6"]]


def sequence_inputs(tier, seed):
    """deterministic list of (edge list with orientation, subgroup size)"""
    r = random.Random(seed)
    inputs = []

    def rand_list(n):
        S = r.sample(range(NE), n)
        return [(e, r.random() < 0.5) for e in S]
    chain = names_to_oriented(TEST_CHAIN)
    for k in (1, 2, 4, 8, 3):
        inputs.append((chain, k))
    # structured lists: edges of one stabiliser, edges of two stabilisers, all X / all Z edges are too large for k=2
    for a, ds in STABILISERS.items():
        L = [(EI[frozenset((QI[a], QI[d]))], False) for d in ds]
        for k in (1, 2, len(L)):
            if k <= len(L):
                inputs.append((L, k))
    for a, b in itertools.combinations(sorted(STABILISERS), 2):
        L = [(EI[frozenset((QI[x], QI[d]))], False) for x in (a, b) for d in STABILISERS[x]]
        if len(L) <= 8:
            for k in (2, len(L) // 2):
                if len(L) % k == 0:
                    inputs.append((L, k))
    if tier == "thorough":
        # every 2-, 3- and 4-subset of the edges with every subgroup size that divides its length
        for n in (2, 3, 4):
            for S in itertools.combinations(range(NE), n):
                for k in range(1, n + 1):
                    if n % k == 0:
                        inputs.append(([(e, False) for e in S], k))
        plan = [(5, (5, 2), 150), (6, (2, 3, 6), 600), (7, (7,), 50), (8, (2, 4), 400), (9, (3,), 120), (10, (5,), 40), (10, (2,), 6)]
        # all X-type / all Z-type ancilla-data edges (12 each): the only 12-lists cheap enough for the library's recursion
        for kind in ("X", "Z"):
            L = [(EI[frozenset((QI[a], QI[d]))], False) for a, ds in sorted(STABILISERS.items()) if a[0] == kind for d in ds]
            inputs.append((L, 6))
            inputs.append((L, 4))
    else:
        for S in itertools.combinations(range(NE), 2):
            inputs.append(([(e, False) for e in S], 2))
        for _ in range(300):
            inputs.append((rand_list(4), 2))
        for _ in range(100):
            inputs.append((rand_list(4), 4))
        plan = [(3, (3, 2), 60), (5, (5, 2), 20), (6, (2, 3), 80), (8, (2, 4), 40), (9, (3,), 12), (10, (5,), 10)]
    for n, ks, count in plan:
        for _ in range(count):
            L = rand_list(n)
            for k in ks:
                inputs.append((L, k))
    # heavier inputs first for load balance, order otherwise deterministic
    def cost(item):
        L, k = item
        n = len(L)
        if n % k:
            return 0
        return math.factorial(n) // (math.factorial(k) ** (n // k))      # leaves of the library's recursion
    inputs.sort(key=lambda it: -cost(it))
    return inputs


def run(tier, seed, out_path, procs=16):
    res = common.Result(PROP)
    common.clear_caches()
    max_size = 4 if tier == "thorough" else 3
    subsets = [S for n in range(0, max_size + 1) for S in itertools.combinations(range(NE), n)]
    sample4 = []
    if tier != "thorough":
        # seeded sample of 4-subsets on top of the complete <=3 enumeration
        r = random.Random(seed + 17)
        all4 = list(itertools.combinations(range(NE), 4))
        sample4 = sorted(r.sample(all4, 1500))
    extra = 1
    tasks = [("subsets", ch, seed, True, extra) for ch in chunks(subsets + sample4, 24)]
    tasks.reverse()  # larger subsets first
    tasks += [("constraints", ch) for ch in chunks(range(NE), 2)]
    seq_inputs = sequence_inputs(tier, seed)
    # interleave round-robin so that heavy inputs spread over chunks
    nchunk = max(1, len(seq_inputs) // 6)
    seq_chunks = [seq_inputs[i::nchunk] for i in range(nchunk)]
    tasks = [("sequences", ch) for ch in seq_chunks] + tasks

    total_n, info, fails, samples = Counter(), Counter(), {}, {"park_overlap": [], "seq": []}
    # cheap whole-table clauses in the parent
    for tag, fnc in (("order", check_order), ("layout", check_layout), ("moving", check_moving)):
        try:
            n, fl = fnc()
        except Exception as ex:      # library code raised outside the per-input guards: a failure of that clause, not of the harness
            n, fl = 1, [F("%s:raises-%s" % (tag, type(ex).__name__), "the %s tables / predicates can be evaluated" % tag, tag, {}, repr(ex), None, {"check": tag}, (0,))]
        total_n[tag] += n
        for f in fl:
            if f["key"] not in fails or f["_sort"] < fails[f["key"]]["_sort"]:
                fails[f["key"]] = f
    ctxm = mp.get_context("fork")
    with ctxm.Pool(min(procs, os.cpu_count() or 1)) as pool:
        for o in pool.imap_unordered(work, tasks, chunksize=1):
            total_n.update(o["n"])
            info.update(o["info"])
            for f in o["fails"]:
                if f["key"] not in fails or f["_sort"] < fails[f["key"]]["_sort"]:
                    fails[f["key"]] = f
            for s in o["samples"]:
                samples["park_overlap" if "qubit" in s else "seq"].append(s)
    for key in sorted(fails):
        f = dict(fails[key])
        f.pop("_sort")
        res.fail(f["key"], f["clause"], f["function"], f["witness"], f["observed"], f["required"], f["replay_args"])

    res.evaluations = int(sum(total_n.values()))
    res.distinct = int(info["subsets_nontrivial"] + info["seq_inputs_nontrivial"])
    res.exhaustive = (tier == "thorough")
    n_sub = info["subsets"]
    res.rule = (
        "Edge subsets S of the 24 Surface-17 edges: ALL subsets with |S| <= %d (%d subsets%s), each in canonical order and, for |S| <= 2, in every "
        "order x orientation, for |S| >= 3 in one more seeded random order/orientation; for every qubit-disjoint S all 17 qubits q. "
        "Generator inputs: %d (edge list, subgroup size) pairs (test chain, stabiliser edge lists, %s, seeded random lists of 3..%d distinct edges "
        "with random orientation), subgroup sizes dividing the length (plus a few that do not), all within max_combinations=20000. "
        "Non-trivial = a subset with >= 2 edges, or a generator input that emits at least one sequence having a step of >= 2 gates. "
        "exhaustive refers to the statement's domain (all <= 4-subsets x 17 qubits): true in the thorough tier only."
        % (max_size, n_sub - len(sample4), (" + a seeded sample of %d 4-subsets" % len(sample4)) if sample4 else "", len(seq_inputs),
           "every 2/3/4-subset" if tier == "thorough" else "every 2-subset, 400 random 4-lists", 12 if tier == "thorough" else 10))
    bound_sub = "all subsets of <= %d of the 24 edges%s; orders/orientations as in rule" % (max_size, " + %d sampled 4-subsets" % len(sample4) if sample4 else "")
    res.stand_ins = [
        {"function": "GateSequenceGenerator.get_mutually_allowed (OperationConstraint.get_forbidden_operations / get_requires_idle / get_allowed_operations underneath)",
         "contract": "clause 1: " + CL_ACCEPT, "bound": bound_sub, "evaluations": total_n["accept"]},
        {"function": "get_requires_parking", "contract": "clause 2: " + CL_PARK,
         "bound": "every qubit-disjoint subset among (" + bound_sub + ") x all 17 qubits", "evaluations": total_n["park"]},
        {"function": "OperationConstraint.get_forbidden_operations / get_allowed_operations",
         "contract": "clause 2 (second report channel): for one active gate g and q outside g, Idle(q) forbidden <=> park(q,{g}); g allowed by its own constraints",
         "bound": "all 24 gates x 15 outside qubits", "evaluations": total_n["constraint"]},
        {"function": "on_moving_side / get_higher_frequency_qubit_id / get_lower_frequency_qubit_id",
         "contract": "clause 1+2 (moving = higher-frequency member; level = lower member): on_moving_side(q,g) <=> q is the higher member of g",
         "bound": "24 edges x 2 orientations x 17 qubits", "evaluations": total_n["moving"]},
        {"function": "FrequencyGroupIdentifier.is_equal_to / is_higher_than / is_lower_than",
         "contract": "clause 1+2 (frequency comparison): strict total order LOW < MID < HIGH", "bound": "all 9 ordered pairs x 3 methods", "evaluations": total_n["order"]},
        {"function": "Surface17Layer tables (qubit_ids, edge_ids, get_frequency_group_identifier, get_neighbors, get_edges)",
         "contract": "the device the statement talks about: tables equal the hard-coded reference Surface-17 the spec is evaluated on",
         "bound": "17 qubits, 24 edges", "evaluations": total_n["layout"]},
        {"function": "GateSequenceGenerator.construct_allowed_gate_sequences / GateSequenceIdentifier.construct_operation_sequence_at / OperationSequence.get_required_parkings "
                     "(utilities.combinatorics.generate_unique_subgroup_combinations underneath)",
         "contract": "clause 3: " + CL_SEQ_ONCE + "; " + CL_SEQ_ACC + "; " + CL_SEQ_PARK + " (first 3 sequences per input)",
         "bound": "%d generator inputs, %d emitting; %d emitted sequences checked" % (info["seq_inputs"], info["seq_inputs_emitting"], info["seq_emitted"]),
         "evaluations": total_n["sequence"]},
    ]
    res.probes = [
        {"assumption": "reference device is well-formed for the spec: every edge joins two different frequency levels (lower/higher member defined), 24 edges, 17 qubits",
         "ok": True},
        {"assumption": "the generator is also complete and duplicate-free (NOT part of the statement): emitted set == spec-valid partitions into blocks of exactly subgroup_size",
         "ok": info["seq_missing"] == 0 and info["seq_duplicates"] == 0, "missing": info["seq_missing"], "duplicates": info["seq_duplicates"],
         "spec_valid_partitions": info["seq_expected"], "example": sorted(samples["seq"], key=lambda x: (len(x["edges"]), json.dumps(x)))[:1]},
        {"assumption": "each single direction 'h allowed by the constraints of g' already equals accept({g,h}) (the statement only fixes the conjunction of both directions)",
         "ok": info["one_direction_asymmetries"] == 0, "asymmetric_ordered_pairs": info["one_direction_asymmetries"]},
        {"assumption": "outside the statement's domain (gate sets sharing a qubit can never be simultaneous): get_requires_parking also equals park(q,S) there",
         "ok": info["park_overlap_disagree"] == 0, "evaluations": info["park_overlap_evals"], "disagreements": info["park_overlap_disagree"],
         "example": sorted(samples["park_overlap"], key=lambda s: (len(s["edges"]), json.dumps(s)))[:1]},
        {"assumption": "at least one generator input emitted a sequence with a multi-gate step (clause 3 not vacuous)", "ok": info["seq_inputs_nontrivial"] > 0,
         "count": info["seq_inputs_nontrivial"]},
    ]
    for k, v in info.items():
        if k.startswith("seq_skipped:"):
            res.skipped[k[len("seq_skipped:"):]] = v
    def safe(fn):
        try:
            return fn()
        except Exception as ex:      # a raising predicate is already recorded as a failure of its clause
            return "raised %r" % (ex,)
    c = ctx()
    e_d4z1, e_d5x2, e_d1z1 = (EI[frozenset((QI[a], QI[b]))] for a, b in (("D4", "Z1"), ("D5", "X2"), ("D1", "Z1")))
    res.samples = [
        {"input": {"edges": [["D4", "Z1"], ["D5", "X2"]]}, "checked": "accept: real %s / spec %s (both HIGH-MID gates operate at MID; Z1 ~ D5 are neighbours at MID)"
         % (safe(lambda: bool(c.Gen.get_mutually_allowed([c.gate(e_d4z1), c.gate(e_d5x2)], c.conn))), spec_accept([e_d4z1, e_d5x2]))},
        {"input": {"edges": [["D1", "Z1"]], "qubit": "D2"}, "checked": "park: real %s / spec %s (Z1 moves down to LOW where neighbour D2 idles)"
         % (safe(lambda: bool(c.get_requires_parking(c.Q[QI['D2']], [c.edge(e_d1z1)], c.conn))), spec_park(QI['D2'], [e_d1z1]))},
        {"input": {"edges": TEST_CHAIN, "subgroup_size": 2}, "checked": "every emitted sequence: gates == requested multiset, every step accept(), parkings == spec"},
        {"counts": {k: int(v) for k, v in sorted(info.items())}},
    ]
    return res.write(out_path)


# ------------------------------------------------------------------------------------------------------
# Replay
# ------------------------------------------------------------------------------------------------------
def evaluate(args):
    kind = args.get("check")
    if kind == "accept":
        return check_accept(names_to_oriented(args["edges"]))[1]
    if kind == "park":
        return check_park(names_to_oriented(args["edges"]), [QI[args["qubit"]]])[1]
    if kind == "sequence":
        return check_sequences(names_to_oriented(args["edges"]), int(args["subgroup_size"]), deep=10 ** 9)[1]
    if kind == "order":
        return check_order()[1]
    if kind == "layout":
        return check_layout()[1]
    if kind == "moving":
        fl = check_moving()[1]
        return [f for f in fl if f["witness"].get("edge") == args.get("edge") and f["witness"].get("qubit") == args.get("qubit")] or fl
    if kind == "constraint":
        e = EI[frozenset(QI[x] for x in args["edge"])]
        return check_constraint(e)[1]
    raise SystemExit("unknown replay check %r" % (kind,))


def observe(args):
    """print what the real code returns next to the spec value for the replayed input"""
    c = ctx()
    kind = args.get("check")
    try:
        if kind in ("accept", "park"):
            L = names_to_oriented(args["edges"])
            S = [e for e, _ in L]
            real = c.Gen.get_mutually_allowed([c.gate(e, f) for e, f in L], c.conn)
            print("observed get_mutually_allowed = %s ; spec accept = %s (qubit-disjoint=%s, collisions=%s)"
                  % (bool(real), spec_accept(S), spec_disjoint(S), [[list(EDGE_NAMES[a]), list(EDGE_NAMES[b]), QUBITS[x], QUBITS[y]] for a, b, x, y in spec_collisions(S)]))
            for q in ([QI[args["qubit"]]] if kind == "park" else []):
                print("observed get_requires_parking(%s) = %s ; spec park = %s"
                      % (QUBITS[q], bool(c.get_requires_parking(c.Q[q], [c.edge(e, f) for e, f in L], c.conn)), spec_park(q, S)))
        elif kind == "sequence":
            L = names_to_oriented(args["edges"])
            n, fl, info = check_sequences(L, int(args["subgroup_size"]), deep=10 ** 9)
            print("observed: %d sequences emitted (spec-valid partitions: %s), %d failing clause instances" % (info["emitted"], info["expected"], len(fl)))
    except Exception as ex:
        print("observed: real code raised %r" % (ex,))


def replay(path):
    rec, args = common.load_replay(path)
    common.clear_caches()
    key = rec.get("key") or rec.get("id") or rec.get("obligation") or (rec.get("failure") or {}).get("key")
    if isinstance(rec.get("failure"), dict) and not rec.get("replay_args"):
        args = rec["failure"].get("replay_args") or rec["failure"].get("witness")
    fails = evaluate(args)
    print("replay input:", json.dumps(args))
    observe(args)
    if not fails:
        print("clause holds on the current tree (recorded key: %s)" % key)
        return 0
    for f in fails:
        print("STILL FAILS key=%s function=%s\n  clause: %s\n  witness: %s\n  observed=%s required=%s"
              % (f["key"], f["function"], f["clause"], json.dumps(f["witness"]), json.dumps(f["observed"], default=str), json.dumps(f["required"], default=str)))
    print("VIOLATION property=%s replay=%s" % (PROP, path))
    return 1


def main(argv=None):
    a = common.parse_args(argv)
    if a.replay:
        sys.exit(replay(a.replay))
    tier = a.tier if a.tier in ("quick", "thorough") else "quick"
    out = run(tier, a.seed, a.out)
    print("C16 bounded: tier=%s evaluations=%d distinct_nontrivial=%d failures=%d wall=%.1fs"
          % (tier, out["evaluations"], out["distinct_nontrivial"], len(out["failures"]), out["wall_s"]))
    for f in out["failures"]:
        print("  FAIL", f["key"], json.dumps(f["witness"])[:300])
    sys.exit(0)


if __name__ == "__main__":
    main()
