#!/usr/bin/env python
"""Bounded run-time stand-in for property C01 (relation-based timing: every operation sits where its relation says).

Real circuits are built through the public API from JSON "build programs" (sequences of add-operation / add-sub-circuit
calls), optionally unrolled (`apply_modifiers`) and flattened (`flatten`).  Two oracles, both independent of the code
under test, judge the start / end / duration the library REPORTS:

 (A) PROGRAM level.  From the build program alone (kinds, qubits, channels, durations, relation type + referenced earlier
     item, nesting, repetition counts) the schedule the statement prescribes is evaluated: explicit relation -> its equation;
     no relation -> FOLLOWED_BY one of the deepest (in relation steps) earlier items of the same level sharing a qubit
     channel, or start of the enclosing (sub-)circuit; end = start + duration; duration of a leaf operation from the
     program and an own table kind -> global duration key; duration of a sub-circuit as the library reports it (C04 is
     judged elsewhere).  After unrolling the same equations are required inside every repetition, and every repetition
     after the first must begin when the latest-ending relation leaf of what precedes it has ended.
 (B) LINK level.  On the real objects, the relation equation of every link read from its FIELDS (never calling
     get_start_time; MultiRelationLink = first latest-ending member) against the reported times of the referenced operation,
     in every state: built, unrolled, flattened.

COLD pass (oracles A and B): times are read AFTER `circuit.operations` (whose first call hands the sub-circuit's link down to
its first operations: through the public API the operations of a nested copy are reachable no other way) and after
`common.clear_caches()`, i.e. the equations are judged modulo memo coherence.

WARM pass (deterministic families): the times the library REPORTS when nothing is cleared: memos cleared, build,
apply_modifiers when something is repeated, then history 'listing' (circuit.operations, start/end of every listed operation) or
'duration-first' (circuit.duration before that); the reported values must equal an own recursive solution of the relation
equations over the link fields.  Keys `C01:warm:<clause>:<history>:<cause class from the program>`.

Every failure record carries `instances` (fingerprints of the failing inputs of the deterministic families, which do not depend
on --seed and run first); all failing inputs are written to <out>.instances.json.

See bounded/README.md for the command line and the output format.
"""
import os
import sys

os.environ.setdefault("MPLBACKEND", "Agg")
os.environ.setdefault("TQDM_DISABLE", "1")

import contextlib
import hashlib
import itertools
import json
import multiprocessing as mp
import random
import time
import traceback
import warnings

sys.path.insert(0, os.path.dirname(os.path.dirname(os.path.abspath(__file__))))
from bounded import common  # noqa: E402

PROP = "C01"
EPS = 1e-9

# ------------------------------------------------------------------------------------------------
# Tables written down from the property statement / the meaning of the operation kinds (NOT read from the code under test)
# ------------------------------------------------------------------------------------------------
# global duration settings (exact binary fractions, pairwise distinct in A so that a swapped key is visible)
GLOBALS = {
    "file": None,  # the repository's configuration file, parsed here with yaml (no override)
    "A": {"READOUT": 5.0, "MICROWAVE": 3.0, "FLUX": 4.0, "RESET": 7.0},
    "B": {"READOUT": 1.0, "MICROWAVE": 0.5, "FLUX": 0.25, "RESET": 1.5},
    "Z": {"READOUT": 3.0, "MICROWAVE": 0.0, "FLUX": 2.0, "RESET": 0.0},   # zero-length gates
}
CONFIG_KEYS = {"READOUT": "default_allocated_readout_duration", "MICROWAVE": "default_allocated_microwave_duration",
               "FLUX": "default_allocated_flux_duration", "RESET": "default_allocated_reset_duration"}

# kind -> (channel of the qubit it occupies, global duration key)
SQ_GLOBAL = {"Reset": ("ALL", "RESET"), "Identity": ("MICROWAVE", "MICROWAVE"), "Hadamard": ("MICROWAVE", "MICROWAVE"),
             "Rx180": ("MICROWAVE", "MICROWAVE"), "Rx90": ("MICROWAVE", "MICROWAVE"), "Rxm90": ("MICROWAVE", "MICROWAVE"),
             "Ry180": ("MICROWAVE", "MICROWAVE"), "Ry90": ("MICROWAVE", "MICROWAVE"), "Rym90": ("MICROWAVE", "MICROWAVE"),
             "Rx180ef": ("MICROWAVE", "MICROWAVE"), "VirtualPhase": ("MICROWAVE", "MICROWAVE"),
             "Rphi90": ("MICROWAVE", "MICROWAVE"), "VirtualPark": ("FLUX", "FLUX")}
SQ_FIXED = ["Wait", "SingleQubitOperation", "VirtualVacant", "VirtualEmpty"]          # duration given by the program
TQ_KINDS = ["CPhase", "VirtualTwoQubitVacant", "TwoQubitOperation", "TwoQubitVirtualPhase"]
BARRIER_LIKE = ["Barrier", "CoordinateShiftOperation"]                               # all channels of a list of qubits
SQ_ZERO = ["DetectorOperation", "LogicalObservableOperation"]                          # annotations on all channels of one qubit
ALL_KINDS = list(SQ_GLOBAL) + SQ_FIXED + TQ_KINDS + ["DispersiveMeasure"] + BARRIER_LIKE + SQ_ZERO

CH = {"ALL": "ALL", "MW": "MICROWAVE", "FL": "FLUX", "RO": "READOUT"}
RELT = {"F": "FOLLOWED_BY", "S": "JOINED_START", "E": "JOINED_END"}
STATES = ("none", "mod", "modflat", "flat")


def item_channels(it):
    """qubit channels an item occupies, from the program: [(qubit, channel)]"""
    k = it["k"]
    if k == "sub":
        out = []
        for c in it["items"]:
            for ch in item_channels(c):
                if ch not in out:
                    out.append(ch)
        return out
    q = it["q"]
    if k in SQ_GLOBAL:
        return [(q[0], SQ_GLOBAL[k][0])]
    if k in ("Wait", "VirtualVacant", "VirtualEmpty"):
        return [(q[0], CH[it.get("ch", "ALL")])]
    if k in ("SingleQubitOperation",) or k in SQ_ZERO:
        return [(q[0], "ALL")]
    if k == "CPhase":
        return [(q[0], "FLUX"), (q[0], "MICROWAVE"), (q[1], "FLUX"), (q[1], "MICROWAVE")]
    if k == "TwoQubitVirtualPhase":
        return [(q[0], "MICROWAVE"), (q[1], "MICROWAVE")]
    if k == "TwoQubitOperation":
        return [(q[0], "ALL"), (q[1], "ALL")]
    if k == "VirtualTwoQubitVacant":
        ch = CH[it.get("ch", "ALL")]
        return [(q[0], ch), (q[1], ch)]
    if k == "DispersiveMeasure":
        return [(q[0], "READOUT")]
    if k in BARRIER_LIKE:
        return [(x, "ALL") for x in q]
    raise ValueError(f"unknown kind {k}")


def ch_match(a, b):
    return a[0] == b[0] and (a[1] == b[1] or a[1] == "ALL" or b[1] == "ALL")


def intended_duration(it, table):
    """duration of a leaf item as far as the program determines it; None = constant of the kind (taken as reported)"""
    k = it["k"]
    if k in SQ_GLOBAL:
        return table[SQ_GLOBAL[k][1]]
    if k == "CPhase":
        return table["FLUX"]
    if k == "DispersiveMeasure":
        return table["READOUT"]
    if k in SQ_FIXED or k in ("TwoQubitOperation", "VirtualTwoQubitVacant"):
        return float(it.get("d", 0.0))
    return None


def analyse_level(items):
    """what the statement prescribes for each item of one circuit level: relation steps (depth) and predecessor"""
    info = []
    for i, it in enumerate(items):
        rel = it.get("rel")
        chans = item_channels(it)
        if rel:
            mode, depth = ("explicit", rel[0], rel[1]), info[rel[0]]["depth"] + 1
        else:
            cands = [j for j in range(i) if any(ch_match(a, b) for a in chans for b in info[j]["chans"])]
            if not cands:
                mode, depth = ("root",), 1
            else:
                deepest = max(info[j]["depth"] for j in cands)
                mode, depth = ("implicit", [j for j in cands if info[j]["depth"] == deepest]), deepest + 1
        info.append({"chans": chans, "mode": mode, "depth": depth})
    return info


# ------------------------------------------------------------------------------------------------
# Library access (imported once, before the pool forks) and instrumentation
# ------------------------------------------------------------------------------------------------
class _L:
    ready = False


class Track:
    """which real object stems from which program item (origin), and which objects were made by one copy() (batch)"""

    def __init__(self):
        self.origin, self.batch, self.keep = {}, {}, []
        self.stack, self.nbatch = [0], 0
        self.extends = []


_TRACK = [None]


def L():
    if _L.ready:
        return _L
    warnings.simplefilter("ignore")
    import yaml
    from qce_circuit.definitions import ROOT_DIR
    from qce_circuit.language.declarative_circuit import DeclarativeCircuit
    from qce_circuit.structure import circuit_operations as co
    from qce_circuit.structure import registry_duration as rd
    from qce_circuit.structure import intrf_circuit_operation_composite as comp
    from qce_circuit.structure.intrf_circuit_operation import (RelationLink, MultiRelationLink, RelationType, QubitChannel,
                                                               ICircuitOperation)
    from qce_circuit.structure.registry_repetition import FixedRepetitionStrategy
    from qce_circuit.addon_stim import circuit_operations as sto
    _L.DeclarativeCircuit, _L.co, _L.rd, _L.comp, _L.sto = DeclarativeCircuit, co, rd, comp, sto
    _L.RelationLink, _L.MultiRelationLink, _L.RelationType, _L.QubitChannel = RelationLink, MultiRelationLink, RelationType, QubitChannel
    _L.FixedRepetitionStrategy = FixedRepetitionStrategy
    with open(os.path.join(ROOT_DIR, "config_default_operation_durations.yaml")) as fh:
        cfg = yaml.safe_load(fh)["_global_registry"]
    _L.file_table = {k: float(cfg[v]) for k, v in CONFIG_KEYS.items()}
    warnings.simplefilter("ignore")   # again: the library installs its own filters at import time
    # instrumentation: copy() of every operation class, extend() of the composite
    seen, todo = set(), [ICircuitOperation]
    while todo:
        cls = todo.pop()
        if cls in seen:
            continue
        seen.add(cls)
        todo.extend(cls.__subclasses__())
        if "copy" in cls.__dict__ and not getattr(cls.__dict__["copy"], "__isabstractmethod__", False):
            _wrap_copy(cls)
    _wrap_extend(comp.CircuitCompositeOperation)
    _L.ready = True
    return _L


def _wrap_copy(cls):
    orig = cls.__dict__["copy"]

    def copy(self, relation_transfer_lookup=None):
        tr = _TRACK[0]
        if tr is None:
            return orig(self, relation_transfer_lookup=relation_transfer_lookup)
        composite = is_composite(self)
        parent_batch = tr.stack[-1]
        if composite:
            tr.nbatch += 1
            tr.stack.append(tr.nbatch)
        try:
            new = orig(self, relation_transfer_lookup=relation_transfer_lookup)
        finally:
            if composite:
                tr.stack.pop()
        tr.origin[id(new)] = tr.origin.get(id(self))
        tr.batch[id(new)] = parent_batch
        tr.keep.append(new)
        tr.keep.append(self)
        return new
    copy.__wrapped__ = orig
    setattr(cls, "copy", copy)


def _wrap_extend(cls):
    orig = cls.__dict__["extend"]

    def extend(self, other):
        tr = _TRACK[0]
        if tr is None:
            return orig(self, other)
        leaves = [n.operation for n in composite_nodes(self)[1]]
        incoming = [n.operation for n in composite_nodes(other)[2]]
        rec = {"self": self, "leaves": leaves, "incoming": incoming,
               "heads": [o for o in incoming if link_is_none(o.relation)],
               "links": [(o, o.relation) for o in incoming if not link_is_none(o.relation)]}
        tr.keep.append(other)
        res = orig(self, other)
        tr.extends.append(rec)
        return res
    extend.__wrapped__ = orig
    setattr(cls, "extend", extend)


def file_table():
    return dict(L().file_table)


def table_of(gname):
    return dict(GLOBALS[gname]) if GLOBALS[gname] is not None else file_table()


@contextlib.contextmanager
def global_setting(gname):
    lib = L()
    if GLOBALS[gname] is None:
        yield
        return
    tab = {getattr(lib.rd.GlobalRegistryKey, k): v for k, v in GLOBALS[gname].items()}
    with lib.rd.temporary_override_get_registry_at(tab):
        yield


# ------------------------------------------------------------------------------------------------
# Own reading of the real objects (pointer fields, link fields)
# ------------------------------------------------------------------------------------------------
def is_composite(op):
    return hasattr(op, "_circuit_graph")


def composite_nodes(comp):
    """(depth-1 nodes, leaf nodes, all nodes) by an own breadth-first walk over the pointer fields"""
    graph = comp._circuit_graph
    root, end = graph._entrypoint_node, graph._endpoint_node
    depth1 = [n for n in root._outgoing_pointers if n is not end]
    leaves, allnodes, seen = [], [], set()
    frontier = list(depth1)
    while frontier:
        nxt = []
        for n in frontier:
            if id(n) in seen:
                continue
            seen.add(id(n))
            allnodes.append(n)
            succ = [m for m in n._outgoing_pointers if m is not end]
            if not succ:
                leaves.append(n)
            nxt.extend(succ)
        frontier = nxt
    return depth1, leaves, allnodes


def find_cycle(ops):
    """a cycle in 'the time of x depends on the time of y' (link references; a sub-circuit depends on its contents), or None"""
    state, stack = {}, []

    def deps(o):
        link = o.relation
        out = list(link._reference_nodes) if type(link).__name__ == "MultiRelationLink" else [link._reference_node]
        out = [r for r in out if r is not None]
        if is_composite(o):
            out.extend(n.operation for n in composite_nodes(o)[2])
        return out

    for start in ops:
        if id(start) in state:
            continue
        todo = [(start, iter(deps(start)))]
        state[id(start)] = 1
        stack = [start]
        while todo:
            o, it = todo[-1]
            nxt = next(it, None)
            if nxt is None:
                state[id(o)] = 2
                todo.pop()
                stack.pop()
                continue
            st = state.get(id(nxt))
            if st == 1:
                return stack[[id(x) for x in stack].index(id(nxt)):]
            if st is None:
                state[id(nxt)] = 1
                stack.append(nxt)
                todo.append((nxt, iter(deps(nxt))))
    return None


def link_is_none(link):
    if type(link).__name__ == "MultiRelationLink":
        return not link._reference_nodes
    return link._reference_node is None


# ------------------------------------------------------------------------------------------------
# Building circuits from JSON programs
# ------------------------------------------------------------------------------------------------
def _make_op(lib, it, rel, acq):
    k, q = it["k"], it["q"]
    co, rd = lib.co, lib.rd
    kw = {}
    if rel is not None:
        kw["relation"] = rel
    if k in SQ_GLOBAL:
        return getattr(co, k)(q[0], **kw)
    if k in SQ_FIXED:
        kw["duration_strategy"] = rd.FixedDurationStrategy(duration=float(it.get("d", 0.0)))
        if k != "SingleQubitOperation":
            kw["qubit_channel"] = getattr(lib.QubitChannel, CH[it.get("ch", "ALL")])
        return getattr(co, k)(q[0], **kw)
    if k == "CPhase" or k == "TwoQubitVirtualPhase":
        return getattr(co, k)(q[0], q[1], **kw)
    if k == "TwoQubitOperation":
        kw["duration_strategy"] = rd.FixedDurationStrategy(duration=float(it.get("d", 0.0)))
        return co.TwoQubitOperation(q[0], q[1], **kw)
    if k == "VirtualTwoQubitVacant":
        kw["duration_strategy"] = rd.FixedDurationStrategy(duration=float(it.get("d", 0.0)))
        kw["qubit_channel"] = getattr(lib.QubitChannel, CH[it.get("ch", "ALL")])
        return co.VirtualTwoQubitVacant(q[0], q[1], **kw)
    if k == "DispersiveMeasure":
        return co.DispersiveMeasure(q[0], acquisition_strategy=acq, **kw)
    if k in SQ_ZERO:
        return getattr(lib.sto, k)(q[0], **kw)
    if k in BARRIER_LIKE:
        op = co.Barrier(list(q)) if k == "Barrier" else lib.sto.CoordinateShiftOperation(list(q))
        if rel is not None:
            op.relation_link = rel          # the constructor takes no relation; the public setter does
        return op
    raise ValueError(f"unknown kind {k}")


def _build_items(lib, circ, items, acq, tr, path):
    added = []
    for i, it in enumerate(items):
        rel = None
        if it.get("rel"):
            idx, t = it["rel"]
            rel = lib.RelationLink(added[idx], getattr(lib.RelationType, RELT[t]))
        if it["k"] == "sub":
            kw = {"repetition_strategy": lib.FixedRepetitionStrategy(int(it.get("reps", 1)))}
            if rel is not None:
                kw["relation"] = rel
            sub = lib.DeclarativeCircuit(**kw)
            tr.origin[id(sub.circuit_structure)] = path + (i,)
            tr.keep.append(sub)
            _build_items(lib, sub, it["items"], acq, tr, path + (i,))
            added.append(circ.add(sub))
        else:
            op = _make_op(lib, it, rel, acq)
            tr.origin[id(op)] = path + (i,)
            tr.batch[id(op)] = 0
            tr.keep.append(op)
            added.append(circ.add(op))
    return added


def build(program, state, tr):
    lib = L()
    if "lib" in program:
        # library-built circuit (no build program: only the link-level oracle and the repetition-chain clause apply)
        from qce_circuit.library.repetition_code.circuit_constructors import construct_repetition_code_circuit_simplified
        from qce_circuit.language.intrf_declarative_circuit import InitialStateEnum, InitialStateContainer
        states = {"0": InitialStateEnum.ZERO, "1": InitialStateEnum.ONE, "+": InitialStateEnum.PLUS}
        init = InitialStateContainer.from_ordered_list([states[c] for c in program["states"]])
        circ = construct_repetition_code_circuit_simplified(initial_state=init, qec_cycles=int(program["cycles"]))
        if state in ("mod", "modflat"):
            circ = circ.apply_modifiers()
        if state in ("modflat", "flat"):
            try:
                circ = circ.flatten()
            except RecursionError as e:
                raise FlattenRecursion(circ) from e
        return circ
    kw = {}
    if int(program.get("reps", 1)) != 1:
        kw["repetition_strategy"] = lib.FixedRepetitionStrategy(int(program["reps"]))
    circ = lib.DeclarativeCircuit(**kw)
    tr.origin[id(circ.circuit_structure)] = ()
    _build_items(lib, circ, program["items"], circ.get_acquisition_strategy(), tr, ())
    if state in ("mod", "modflat"):
        circ = circ.apply_modifiers()
    if state in ("modflat", "flat"):
        try:
            circ = circ.flatten()
        except RecursionError as e:
            raise FlattenRecursion(circ) from e
    return circ


class FlattenRecursion(Exception):
    """flatten() itself ran into unbounded recursion; .args[0] is the circuit (still nested, links already rewritten)"""


def program_stats(program):
    st = {"items": 0, "ops": 0, "rel": 0, "sub": 0, "rep": 0, "maxdepth": 0, "implicit": 0}
    if "lib" in program:
        st.update(items=10, ops=10, rel=1, sub=1, rep=1, maxdepth=2, implicit=1)
        return st

    def rec(items, depth, in_sub):
        st["maxdepth"] = max(st["maxdepth"], depth)
        info = analyse_level(items)
        for it, inf in zip(items, info):
            st["items"] += 1
            if it.get("rel"):
                st["rel"] += 1
            if inf["mode"][0] == "implicit":
                st["implicit"] += 1
            if it["k"] == "sub":
                st["sub"] += 1
                if int(it.get("reps", 1)) != 1:
                    st["rep"] += 1
                rec(it["items"], depth + 1, True)
            else:
                st["ops"] += 1
    rec(program["items"], 0, False)
    if int(program.get("reps", 1)) != 1:
        st["rep"] += 1
    return st


def nontrivial(program):
    st = program_stats(program)
    return st["items"] >= 2 and (st["rel"] > 0 or st["implicit"] > 0 or st["sub"] > 0)


# ------------------------------------------------------------------------------------------------
# Statistics
# ------------------------------------------------------------------------------------------------
CLAUSES = ["duration", "end", "explicit", "implicit", "root", "chain-link", "chain-start", "instances", "link-level", "global", "warm"]
INSTANCE_CAP = 20000     # failing inputs kept per key (the smallest fingerprints, so that the kept set does not depend on scheduling)


def fingerprint(program, mode, key):
    import hashlib as _h
    return _h.sha1(json.dumps({"program": program, "mode": mode, "key": key}, sort_keys=True, default=str).encode()).hexdigest()[:12]


class Stats:
    def __init__(self):
        self.n = {c: 0 for c in CLAUSES}
        self.circuits = 0
        self.programs = 0
        self.nontrivial = 0
        self.failures = {}
        self.skipped = {}
        self.hashes = set()
        self.samples = []
        self.instances = {}      # key -> {fingerprint: record}   (deterministic families only)
        self.inst_count = {}     # key -> number of failing inputs
        self.inst_overflow = set()
        self.warm_cases = 0
        self.probe = {"flatten_changes_schedule": 0, "flatten_compared": 0, "first_read_relinks": 0, "ties": 0,
                      "negative_starts": 0, "zero_length": 0, "nonleaf_last_ending": 0, "multi_links": 0,
                      "channel_table_checked": 0, "channel_table_mismatch": {}, "states": {s: 0 for s in STATES},
                      "warm_own_vs_cold_mismatch": 0}

    def fail(self, key, clause, function, witness, observed, required, inst_mode=None):
        size = len(json.dumps(witness, default=str))
        old = self.failures.get(key)
        if old is None or (size, json.dumps(witness, sort_keys=True, default=str)) < (old["_size"], json.dumps(old["witness"], sort_keys=True, default=str)):
            self.failures[key] = {"key": key, "clause": clause, "function": function, "witness": witness,
                                  "observed": observed, "required": required, "replay_args": dict(witness, key=key),
                                  "_size": size}
        if inst_mode is not None:
            fp = fingerprint(witness["program"], inst_mode, key)
            d = self.instances.setdefault(key, {})
            if fp not in d:
                d[fp] = {"key": key, "witness": witness, "observed": observed, "required": required}
                self.inst_count[key] = self.inst_count.get(key, 0) + 1
                self._trim(key)

    def _trim(self, key):
        d = self.instances[key]
        if len(d) > INSTANCE_CAP:
            for fp in sorted(d)[INSTANCE_CAP:]:
                del d[fp]
            self.inst_overflow.add(key)

    def skip(self, reason):
        self.skipped[reason] = self.skipped.get(reason, 0) + 1

    def merge(self, o):
        for c in CLAUSES:
            self.n[c] += o.n[c]
        self.circuits += o.circuits
        self.programs += o.programs
        self.nontrivial += o.nontrivial
        for k, f in o.failures.items():
            old = self.failures.get(k)
            if old is None or (f["_size"], json.dumps(f["witness"], sort_keys=True, default=str)) < \
                    (old["_size"], json.dumps(old["witness"], sort_keys=True, default=str)):
                self.failures[k] = f
        for k, v in o.skipped.items():
            self.skipped[k] = self.skipped.get(k, 0) + v
        self.hashes |= o.hashes
        self.warm_cases += o.warm_cases
        for k, d in o.instances.items():
            mine = self.instances.setdefault(k, {})
            if k in self.inst_overflow or k in o.inst_overflow:
                self.inst_count[k] = self.inst_count.get(k, 0) + o.inst_count.get(k, 0)
                mine.update(d)
            else:
                mine.update(d)
                self.inst_count[k] = len(mine)
            self._trim(k)
        self.inst_overflow |= o.inst_overflow
        if len(self.samples) < 8:
            self.samples.extend(o.samples[:2])
        for k, v in o.probe.items():
            if isinstance(v, dict):
                for kk, vv in v.items():
                    self.probe[k][kk] = self.probe[k].get(kk, 0) + vv
            else:
                self.probe[k] += v


def close(a, b):
    return abs(a - b) <= EPS


# ------------------------------------------------------------------------------------------------
# One case = one program, one state, one build-time duration setting; evaluated under every duration setting
# ------------------------------------------------------------------------------------------------
def exc_class(err):
    tb = traceback.extract_tb(err.__traceback__)
    where = ""
    for fr in reversed(tb):
        if "qce_circuit" in fr.filename:
            where = fr.name
            break
    return f"{type(err).__name__}-in-{where}"


def walk_structure(root, tr):
    """every composite instance with its children (own pointer walk): [(composite, [child ops])]"""
    out, todo = [], [root]
    while todo:
        c = todo.pop()
        kids = [n.operation for n in composite_nodes(c)[2]]
        out.append((c, kids))
        todo.extend(k for k in kids if is_composite(k))
    return out


def check_case(program, state, gbuild, gnames, stats, verbose=False, det=False):
    """evaluates every clause on one built circuit; returns (number of failures recorded, schedules for the flatten probe)"""
    L()
    witness = {"program": program, "state": state, "G_build": gbuild}
    say = (lambda *a: print(*a)) if verbose else (lambda *a: None)

    def fail(key, clause, function, observed, required, g=None):
        say("  FAIL", key, "| observed:", observed, "| required:", required, "| durations:", g)
        w = dict(witness)
        if g is not None:
            w["G"] = g
        stats.fail(f"{PROP}:{key}", clause, function, w, observed, required, inst_mode=f"cold:{state}:{gbuild}" if det else None)
        fail.count += 1
    fail.count = 0

    tr = Track()
    _TRACK[0] = tr
    try:
        with global_setting(gbuild):
            common.clear_caches()
            circ = build(program, state, tr)
    except FlattenRecursion as e:
        _TRACK[0] = None
        common.clear_caches()
        stats.circuits += 1
        stats.probe["states"][state] += 1
        broken = e.args[0].circuit_structure
        cyc = find_cycle([broken] + [o for c, kids in walk_structure(broken, tr) for o in kids])
        if cyc:
            fail(f"flatten:relation-cycle:{state}", "the relation equations of a circuit built through the public API have a (unique) solution",
                 "apply_flatten_to_self / add_to_graph", {"raised": "RecursionError inside flatten()", "cycle":
                 [f"{type(o).__name__}{tr.origin.get(id(o))}@copy{tr.batch.get(id(o))}" for o in cyc]}, "acyclic relations")
        else:
            fail(f"flatten:raises:RecursionError:{state}", "flatten() terminates", "apply_flatten_to_self", "RecursionError, no cycle found in the links", "a circuit")
        return fail.count
    except RecursionError:
        stats.skip("program cannot be built: RecursionError")
        return 0
    except Exception as e:  # noqa
        stats.skip(f"program cannot be built: {exc_class(e)}")
        say("  build raised", repr(e))
        return 0
    finally:
        _TRACK[0] = None
        common.clear_caches()
    stats.circuits += 1
    stats.probe["states"][state] += 1

    root = circ.circuit_structure
    links_before = [(id(o), id(o.relation)) for c, kids in walk_structure(root, tr) for o in kids]
    try:
        listed = circ.operations          # hand-down of the sub-circuits' links happens here
    except Exception as e:  # noqa
        cyc = find_cycle([root] + [o for c, kids in walk_structure(root, tr) for o in kids])
        if cyc:
            fail(f"flatten:relation-cycle:{state}" if "flat" in state else f"relation-cycle:{state}",
                 "the relation equations of a circuit built through the public API have a (unique) solution",
                 "apply_flatten_to_self / add_to_graph" if "flat" in state else "add_to_graph",
                 {"raised": type(e).__name__, "cycle": [f"{type(o).__name__}{tr.origin.get(id(o))}@copy{tr.batch.get(id(o))}" for o in cyc]},
                 "acyclic relations")
        else:
            fail(f"decomposed_operations:raises:{exc_class(e)}", "the operations of a built circuit can be listed", "decomposed_operations",
                 f"{type(e).__name__}: {str(e)[:200]}", "a list of operations")
        common.clear_caches()
        return fail.count
    common.clear_caches()
    structure = walk_structure(root, tr)
    if links_before != [(id(o), id(o.relation)) for c, kids in structure for o in kids]:
        stats.probe["first_read_relinks"] += 1
    every = [root] + [o for c, kids in structure for o in kids]
    reachable = {id(o) for o in every}
    if any(id(o) not in reachable for o in listed):
        fail("decomposed_operations:listed-operation-not-in-structure", "listed operations are the operations of the structure",
             "decomposed_operations", "an operation that the pointer walk does not reach", "subset of the structure")
    head_ids = {id(h) for rec in tr.extends for h in rec["heads"]}
    # operations that are no longer part of the structure but still referenced by a link (after flatten: sub-circuits)
    dangling, seen, todo = [], set(reachable), list(every)
    while todo:
        link = todo.pop().relation
        refs = link._reference_nodes if type(link).__name__ == "MultiRelationLink" else [link._reference_node]
        for r in refs:
            if r is not None and id(r) not in seen:
                seen.add(id(r))
                dangling.append(r)
                todo.append(r)
    stats.probe["multi_links"] += sum(1 for o in every if type(o.relation).__name__ == "MultiRelationLink")

    # probe: the own channel table agrees with what the real operations declare (leaf operations, by origin)
    is_lib = "lib" in program
    if state in ("none", "mod") and not is_lib:
        for o in every:
            p = tr.origin.get(id(o))
            if p is None or is_composite(o):
                continue
            it = item_at(program, p)
            stats.probe["channel_table_checked"] += 1
            mine = sorted(item_channels(it))
            real = sorted((ci.id, ci.channel.name) for ci in o.channel_identifiers)
            if mine != real:
                cls = it["k"] + ("(copy)" if (len(p) > 1 or tr.batch.get(id(o)) != 0) else "(original)")
                stats.probe["channel_table_mismatch"][cls] = stats.probe["channel_table_mismatch"].get(cls, 0) + 1

    flat_sched, sample = {}, None
    for g in gnames:
        T = table_of(g)
        with global_setting(g):
            common.clear_caches()
            rep = {}
            try:
                for o in every + dangling:
                    rep[id(o)] = (o.start_time, o.duration, o.end_time)
            except Exception as e:  # noqa
                cyc = find_cycle(every)
                if cyc:
                    fail(f"flatten:relation-cycle:{state}" if "flat" in state else f"relation-cycle:{state}",
                         "the relation equations of a circuit built through the public API have a (unique) solution",
                         "apply_flatten_to_self / add_to_graph" if "flat" in state else "add_to_graph",
                         {"raised": type(e).__name__, "cycle": [f"{type(o).__name__}{tr.origin.get(id(o))}@copy{tr.batch.get(id(o))}" for o in cyc]},
                         "acyclic relations", g)
                else:
                    fail(f"start_time:raises:{exc_class(e)}", "start / duration / end of every operation can be read", "start_time",
                         f"{type(e).__name__}: {str(e)[:200]}", "three numbers", g)
                common.clear_caches()
                continue
            bad = [v for v in rep.values() if not all(isinstance(x, (int, float)) for x in v)]
            if bad:
                fail("start_time:not-a-number", "start / duration / end are numbers", "start_time", str(bad[0]), "three numbers", g)
                common.clear_caches()
                continue
            common.clear_caches()
        say(f" durations {g} = {T}")
        for o in every:
            s, d, e = rep[id(o)]
            say(f"   {str(tr.origin.get(id(o))):14s} batch {str(tr.batch.get(id(o))):4s} {type(o).__name__:26s} start {s:7.3f} duration {d:6.3f} end {e:7.3f}")
            if s < 0:
                stats.probe["negative_starts"] += 1
            if d == 0 and not is_composite(o):
                stats.probe["zero_length"] += 1

        # ---- (B) link level: the equation of every link, over its FIELDS, against the reported times of what it references ----
        for o in every:
            stats.n["link-level"] += 1
            link = o.relation
            lname = type(link).__name__
            s, d, e = rep[id(o)]
            if not is_composite(o):
                strat = o.duration_strategy
                sname = type(strat).__name__
                d_own = T[strat.key.name] if sname == "GlobalDurationStrategy" else strat.duration if sname == "FixedDurationStrategy" else None
                if d_own is not None and not close(d, d_own):
                    fail(f"link-level:duration:{sname}", "reported duration = the duration strategy's field / the global setting of its key", "duration",
                         {"op": type(o).__name__, "duration": d}, d_own, g)
            if lname == "MultiRelationLink":
                ref = None
                for r in link._reference_nodes:
                    if ref is None or rep[id(r)][2] > rep[id(ref)][2]:
                        ref = r                       # first latest-ending member
            else:
                ref = link._reference_node
            if ref is None:
                rt, s_own = "none", 0.0
            else:
                rt = link._relation_type.name
                rs, rd_, re_ = rep[id(ref)]
                s_own = re_ if rt == "FOLLOWED_BY" else rs if rt == "JOINED_START" else re_ - d if rt == "JOINED_END" else None
            if s_own is None or not close(s, s_own):
                fail(f"link-level:{lname}:{rt}", "reported start = the relation equation of the link (fields _reference_node(s), _relation_type; "
                     "MultiRelationLink: first latest-ending member) applied to the reported times of the referenced operation",
                     f"{lname}.get_start_time", {"op": type(o).__name__, "origin": tr.origin.get(id(o)), "start": s}, s_own, g)
            stats.n["end"] += 1
            if not close(e, s + d):
                fail("end_time:end-differs-from-start-plus-duration", "end = start + duration", "IDurationComponent.end_time",
                     {"op": type(o).__name__, "start": s, "duration": d, "end": e}, s + d, g)

        # ---- repetitions chained behind the latest leaf (unrolled states; records of every extend call) -------------
        for rec in tr.extends:
            owner = rec["self"]
            if id(owner) not in reachable:
                continue
            for o, link in rec["links"]:
                stats.n["chain-link"] += 1
                if id(o) in reachable and o.relation is not link and state == "mod":
                    fail("extend:relation-of-related-operation-replaced", "operations of an appended repetition that have a relation keep it",
                         "CircuitCompositeOperation.extend", {"op": type(o).__name__, "origin": tr.origin.get(id(o))}, "unchanged link", g)
            if state != "mod":
                continue
            for h in rec["heads"]:
                if id(h) not in reachable:
                    continue
                stats.n["chain-start"] += 1
                if rec["leaves"]:
                    need = max(rep[id(x)][2] for x in rec["leaves"] if id(x) in rep)
                    what = "every repetition after the first begins when the latest-ending relation leaf of what precedes it has ended"
                else:
                    need = rep[id(owner)][0]
                    what = "a repetition appended to an empty circuit starts with the circuit"
                if not close(rep[id(h)][0], need):
                    fail("extend:repetition-does-not-start-at-latest-leaf-end", what, "CircuitCompositeOperation.extend / MultiRelationLink.reference_node",
                         {"op": type(h).__name__, "origin": tr.origin.get(id(h)), "start": rep[id(h)][0],
                          "leaf_ends": [rep[id(x)][2] for x in rec["leaves"] if id(x) in rep]}, need, g)

        # ---- (A) program level ----------------------------------------------------------------------------------------
        if state in ("none", "mod") and not is_lib:
            before = fail.count
            check_program_level(program, state, root, structure, tr, rep, T, g, head_ids, stats, fail)
            if state == "none" and fail.count == before:
                sample = check_global(program, root, structure, tr, rep, T, g, stats, fail, say)
        if state in ("mod", "modflat"):
            flat_sched[g] = sorted((str(tr.origin.get(id(o))), rep[id(o)][0], rep[id(o)][2]) for o in listed)
    common.clear_caches()
    if len(stats.samples) < 2 and sample and nontrivial(program) and fail.count == 0 and program_stats(program)["items"] >= 4:
        stats.samples.append({"program": program, "state": state, "G_build": gbuild,
                              "checked": f"duration, end = start + duration, relation equation (program level) and link-level solution of every item under "
                                         f"durations {list(gnames)}; below: schedule computed from the program alone vs reported, durations {gnames[-1]}",
                              "schedule": sample})
    return fail.count, flat_sched


# ------------------------------------------------------------------------------------------------
# WARM pass: the times the library REPORTS when no memo is cleared between building and reading
# ------------------------------------------------------------------------------------------------
HISTORIES = ("listing", "duration-first")


def warm_cause_class(program):
    """cause class of a warm failure, from the program alone: <repetition class>:<position of the sub-circuits>"""
    best = []            # longest chain of nested repetition counts >= 2
    behind = [False]

    def rec(items, chain):
        nonlocal best
        for i, it in enumerate(items):
            if it["k"] == "sub":
                if i > 0:
                    behind[0] = True
                c = chain + ([int(it.get("reps", 1))] if int(it.get("reps", 1)) >= 2 else [])
                if (len(c), max(c, default=0)) > (len(best), max(best, default=0)):
                    best = c
                rec(it["items"], c)
    if "lib" in program:
        return "library-circuit"
    root = [int(program["reps"])] if int(program.get("reps", 1)) >= 2 else []
    best = list(root)
    rec(program["items"], root)
    if len(best) >= 2:
        rc = "nested-repetition(max>=3)" if max(best) >= 3 else "nested-repetition(2x2)"
    elif len(best) == 1:
        rc = "repetition>=3" if best[0] >= 3 else "repetition-2"
    else:
        rc = "no-repetition"
    has_sub = program_stats(program)["sub"] > 0
    pos = "sub-circuit-behind-prefix" if behind[0] else ("sub-circuit-at-start" if has_sub else "no-sub-circuit")

    def barrier_copied(items, copied):
        return any((it["k"] in BARRIER_LIKE and copied) or (it["k"] == "sub" and barrier_copied(it["items"], True)) for it in items)
    # barrier-like operations hash by identity (all other operations by value, relation link included): as reference of a
    # memoised link they behave differently
    bar = ":with-barrier" if barrier_copied(program["items"], bool(root)) else ""
    return f"{rc}:{pos}{bar}"


class OwnSolver:
    """solution of the relation equations over the link fields (own recursion, own memo per instance); leaf durations from the
    strategy fields and the table, durations of composites as given (read from the library with fresh memos)"""

    def __init__(self, table, comp_dur):
        self.T, self.C = table, comp_dur
        self._s, self._d = {}, {}

    def dur(self, o):
        k = id(o)
        if k not in self._d:
            if is_composite(o):
                self._d[k] = self.C[k]
            else:
                s = o.duration_strategy
                n = type(s).__name__
                self._d[k] = self.T[s.key.name] if n == "GlobalDurationStrategy" else s.duration if n == "FixedDurationStrategy" else self.C[k]
        return self._d[k]

    def start(self, o):
        k = id(o)
        if k in self._s:
            return self._s[k]
        link = o.relation
        if type(link).__name__ == "MultiRelationLink":
            ref = None
            for r in link._reference_nodes:
                if ref is None or self.end(r) > self.end(ref):
                    ref = r
        else:
            ref = link._reference_node
        if ref is None:
            v = 0.0
        else:
            t = link._relation_type.name
            v = self.end(ref) if t == "FOLLOWED_BY" else self.start(ref) if t == "JOINED_START" else self.end(ref) - self.dur(o)
        self._s[k] = v
        return v

    def end(self, o):
        return self.start(o) + self.dur(o)


def check_warm(program, history, stats, verbose=False, det=True):
    """build -> [apply_modifiers when something is repeated] -> [circuit.duration] -> circuit.operations -> start/end of every
    listed operation, with NO memo cleared in between (memos are cleared only before building); the reported values must equal the
    own solution of the relation equations over the link fields.  Returns the number of failures recorded."""
    L()
    say = (lambda *a: print(*a)) if verbose else (lambda *a: None)
    state = "mod" if program_stats(program)["rep"] > 0 else "none"
    witness = {"program": program, "history": history}
    cause = warm_cause_class(program)
    stats.warm_cases += 1

    def fail(key, clause, function, observed, required):
        say("  FAIL", key, "| observed:", observed, "| required:", required)
        stats.fail(f"{PROP}:{key}", clause, function, witness, observed, required, inst_mode=f"warm:{history}" if det else None)
        return 1

    _TRACK[0] = None
    common.clear_caches()
    try:
        circ = build(program, state, Track())
    except Exception as e:  # noqa
        stats.skip(f"program cannot be built: {type(e).__name__}")
        common.clear_caches()
        return 0
    try:
        if history == "duration-first":
            circ.duration
        listed = circ.operations
        warm = [(o.start_time, o.end_time) for o in listed]
    except Exception as e:  # noqa
        common.clear_caches()
        return fail(f"warm:raises:{type(e).__name__}:{history}:{cause}", "the listing and the times of a built circuit can be read", "start_time",
                    f"{type(e).__name__}: {str(e)[:160]}", "numbers")
    # own solution (composite durations: as the library reports them with fresh memos; C04 is judged elsewhere)
    common.clear_caches()
    comp_dur, todo, extra = {}, [circ.circuit_structure], []
    while todo:
        c = todo.pop()
        comp_dur[id(c)] = c.duration
        for n in composite_nodes(c)[2]:
            if is_composite(n.operation):
                todo.append(n.operation)
            elif type(n.operation.duration_strategy).__name__ not in ("GlobalDurationStrategy", "FixedDurationStrategy"):
                comp_dur[id(n.operation)] = n.operation.duration
    cold = [(o.start_time, o.end_time) for o in listed]
    common.clear_caches()
    solver = OwnSolver(file_table(), comp_dur)
    try:
        own = [(solver.start(o), solver.end(o)) for o in listed]
    except Exception as e:  # noqa
        stats.skip(f"warm: own solver failed: {type(e).__name__}")
        return 0
    stats.n["warm"] += len(listed)
    if any(not (close(a[0], b[0]) and close(a[1], b[1])) for a, b in zip(own, cold)):
        stats.probe["warm_own_vs_cold_mismatch"] += 1      # not a memo matter: the cold pass judges it
        return 0
    say(f" history {history}; state {state}; cause class {cause}")
    for i, o in enumerate(listed):
        say(f"   #{i:2d} {type(o).__name__:22s} reported start {warm[i][0]:7.3f} end {warm[i][1]:7.3f} | own start {own[i][0]:7.3f} end {own[i][1]:7.3f}")
    for i, o in enumerate(listed):
        ws, we = warm[i]
        s, e = own[i]
        if not close(ws, s):
            link = o.relation
            rt = "no-relation" if link_is_none(link) else ("multi-" if type(link).__name__ == "MultiRelationLink" else "") + link._relation_type.name
            return fail(f"warm:start:{history}:{cause}", "the start time reported through the public API (no memo cleared after building) is the solution of the "
                        "operation's scheduling relation", "RelationLink.get_start_time / MultiRelationLink.get_start_time (lru_cache)",
                        {"listed_operation": i, "kind": type(o).__name__, "relation": rt, "reported_start": ws, "reported_end": we}, {"start": s, "end": e})
        if not close(we, e):
            return fail(f"warm:end:{history}:{cause}", "the end time reported through the public API (no memo cleared after building) is start + duration of the "
                        "solution of the operation's scheduling relation", "IDurationComponent.end_time",
                        {"listed_operation": i, "kind": type(o).__name__, "reported_start": ws, "reported_end": we}, {"start": s, "end": e})
    return 0


def item_at(program, path):
    items, it = program["items"], None
    for i in path:
        it = items[i]
        items = it.get("items", [])
    return it


def level_items(program, path):
    items = program["items"]
    for i in path:
        items = items[i]["items"]
    return items


def level_reps(program, path):
    return int(program.get("reps", 1)) if not path else int(item_at(program, path).get("reps", 1))


def has_lossy_vtqv(it):
    """a VirtualTwoQubitVacant on a channel other than ALL, here or below"""
    if it["k"] == "sub":
        return any(has_lossy_vtqv(c) for c in it["items"])
    return it["k"] == "VirtualTwoQubitVacant" and it.get("ch", "ALL") != "ALL"


def classify(items, i, mode, is_copy):
    """key of a known defect family that explains a failed relation clause, from features of the INPUT only; None = no family
    applies (the failure then gets a general key naming clause, item type, context and state).
    is_copy: the judged object was made by copy() (it sits inside a sub-circuit, or in a repetition of the circuit itself).
    Background: a level is built in program order on the original objects; copy() re-adds the level in graph order, transfers
    the links of all operations but barrier-like ones, and re-derives the placement of barrier-like operations and of operations
    that had no link."""
    it = items[i]
    if it["k"] == "sub" and it.get("rel"):
        return "add_sub_circuit:explicit-relation-of-sub-circuit-dropped"
    if is_copy and it["k"] in BARRIER_LIKE and mode == "explicit":
        return "copy:barrier-drops-relation"
    if is_copy and it["k"] in BARRIER_LIKE and mode == "implicit":
        return "copy:barrier-drops-implicit-link(re-placed-in-graph-order)"
    if mode == "explicit":
        return None
    earlier = items[:i]
    if any(o["k"] == "sub" and o.get("rel") for o in earlier):
        return "add_sub_circuit:explicit-relation-of-sub-circuit-dropped:later-items-of-the-level-placed-differently"
    if it["k"] == "sub" and has_lossy_vtqv(it):
        return "copy:VirtualTwoQubitVacant-drops-channel"
    if any(o["k"] == "sub" and has_lossy_vtqv(o) for o in earlier):
        return "copy:VirtualTwoQubitVacant-drops-channel:other-items-of-the-level-placed-differently"
    if is_copy and (mode == "root" or it["k"] in BARRIER_LIKE):      # placement re-derived in the copy
        if has_lossy_vtqv(it):
            return "copy:VirtualTwoQubitVacant-drops-channel"
        if any(has_lossy_vtqv(o) for j, o in enumerate(items) if j != i):
            return "copy:VirtualTwoQubitVacant-drops-channel:other-items-of-the-level-placed-differently"
    return None


def check_program_level(program, state, root, structure, tr, rep, T, g, head_ids, stats, fail):
    for comp_obj, kids in structure:
        path = tr.origin.get(id(comp_obj))
        if path is None:
            fail("listing:composite-of-unknown-origin", "every sub-circuit in the circuit stems from an added sub-circuit", "copy",
                 type(comp_obj).__name__, "a program item", g)
            continue
        items = level_items(program, path)
        in_sub = len(path) > 0
        groups = {}
        for o in kids:
            p = tr.origin.get(id(o))
            if p is None or p[:-1] != path:
                fail("listing:operation-of-foreign-origin", "a (sub-)circuit contains the operations added to it, nothing else", "copy / add",
                     {"op": type(o).__name__, "origin": p, "level": path}, "an item of this level", g)
                continue
            groups.setdefault(tr.batch.get(id(o)), {}).setdefault(p[-1], []).append(o)
        stats.n["instances"] += 1
        want_groups = (level_reps(program, path) if state == "mod" else 1) if items else 0
        if len(groups) != want_groups:
            fail(f"listing:number-of-repetitions:{state}", "as built every item is present once; unrolled, once per repetition of its sub-circuit",
                 "repeat / copy", {"level": path, "copies": len(groups)}, want_groups, g)
        info = analyse_level(items)
        for b, members in groups.items():
            for i, it in enumerate(items):
                objs = members.get(i, [])
                stats.n["instances"] += 1
                if len(objs) != 1:
                    fail(f"listing:item-instances-per-copy:{state}", "every added item occurs exactly once in each copy of its level", "copy / extend",
                         {"level": path, "item": i, "instances": len(objs)}, 1, g)
                    continue
                x = objs[0]
                s, d, e = rep[id(x)]
                ctx = "in-sub-circuit" if in_sub else "top-level"
                what = "sub-circuit" if it["k"] == "sub" else "operation"
                # duration of a leaf operation
                if it["k"] != "sub":
                    want = intended_duration(it, T)
                    if want is not None:
                        stats.n["duration"] += 1
                        if not close(d, want):
                            if it["k"] == "VirtualTwoQubitVacant" and (in_sub or tr.batch.get(id(x)) != 0) and close(d, 0.0):
                                cls = None
                            elif it["k"] in SQ_GLOBAL or it["k"] in ("CPhase", "DispersiveMeasure"):
                                cls = "global-keyed:" + ctx
                            else:
                                cls = "fixed:" + ctx
                            fail(f"duration:{cls}" if cls else "copy:VirtualTwoQubitVacant-drops-duration", "the duration of an operation is the one it was given (fixed) / the global setting of its kind",
                                 "duration", {"item": list(path) + [i], "kind": it["k"], "duration": d}, want, g)

                # relation equation
                def rel_ok(inf):
                    mode = inf["mode"]
                    if mode[0] == "explicit":
                        ys = members.get(mode[1], [])
                        if len(ys) != 1:
                            return None, None, None
                        ys_, yd, ye = rep[id(ys[0])]
                        if mode[2] == "F":
                            return close(s, ye), {"start": s}, {"start": ye}
                        if mode[2] == "S":
                            return close(s, ys_), {"start": s}, {"start": ys_}
                        return close(e, ye) and close(s, ye - d), {"start": s, "end": e}, {"end": ye, "start": ye - d}
                    if mode[0] == "implicit":
                        ends = []
                        for j in mode[1]:
                            ys = members.get(j, [])
                            if len(ys) == 1:
                                ends.append(rep[id(ys[0])][2])
                        if not ends:
                            return None, None, None
                        return any(close(s, v) for v in ends), {"start": s}, {"start (end of one of the deepest channel-sharing items)": ends}
                    # first in its channels: with the enclosing (sub-)circuit, or (repetition > 1) behind the latest leaf
                    if id(x) in head_ids:
                        return True, None, None     # judged with the extend records above
                    cs = rep[id(comp_obj)][0]
                    return close(s, cs), {"start": s}, {"start (of the enclosing circuit)": cs}

                inf = info[i]
                mode = inf["mode"][0]
                stats.n[mode] += 1
                if mode == "implicit" and len(inf["mode"][1]) > 1:
                    stats.probe["ties"] += 1
                ok, obs, req = rel_ok(inf)
                if ok is None:
                    continue        # the referenced instance is missing: already reported above
                if not ok:
                    named = classify(items, i, mode, in_sub or tr.batch.get(id(x)) != 0)
                    wit = {"item": list(path) + [i], "kind": it["k"], "relation": it.get("rel"), "prescribed": inf["mode"], **obs}
                    if mode == "explicit":
                        t = RELT[inf["mode"][2]]
                        fail(named or f"relation:{what}:{t}:{ctx}:{state}", f"an item added with {t} to an earlier item obeys that relation",
                             "add_sub_circuit / copy" if what == "sub-circuit" else "RelationLink.get_start_time / add_to_graph / copy", wit, req, g)
                    elif mode == "implicit":
                        fail(named or f"implicit-predecessor:{what}:{ctx}:{state}", "an item added without relation is FOLLOWED_BY one of the deepest (in relation steps) "
                             "earlier items sharing one of its qubit channels", "CircuitGraphBranch.get_leaf_at_any / add_to_graph", wit, req, g)
                    else:
                        fail(named or f"first-in-channel:{what}:{ctx}:{state}", "an item without relation and without channel-sharing predecessor starts with its "
                             "enclosing (sub-)circuit", "add_to_graph / decomposed_operations (hand-down)", wit, req, g)


def check_global(program, root, structure, tr, rep, T, g, stats, fail, say):
    """as built: the whole schedule evaluated top-down from the program alone must equal the reported one"""
    by_path = {}
    for c, kids in structure:
        for o in kids:
            by_path[tr.origin.get(id(o))] = o
    expected = {}

    def level(path, items, t0, in_sub):
        info = analyse_level(items)
        se = []
        for i, it in enumerate(items):
            p = path + (i,)
            o = by_path.get(p)
            if o is None:
                return False
            d = intended_duration(it, T) if it["k"] != "sub" else None
            if d is None:
                d = rep[id(o)][1]
            mode = info[i]["mode"]
            if mode[0] == "explicit":
                ys, ye = se[mode[1]]
                s = ye if mode[2] == "F" else ys if mode[2] == "S" else ye - d
            elif mode[0] == "implicit":
                ends = [se[j][1] for j in mode[1]]
                s = next((v for v in ends if close(v, rep[id(o)][0])), ends[0])
            else:
                s = t0
            se.append((s, s + d))
            expected[p] = (s, s + d)
            if it["k"] == "sub" and not level(p, it["items"], s, True):
                return False
        return True

    if not level((), program["items"], rep[id(root)][0], False):
        return None
    stats.n["global"] += 1
    for p, (s, e) in expected.items():
        rs, rd_, re_ = rep[id(by_path[p])]
        if not (close(s, rs) and close(e, re_)):
            fail("global-schedule:reported-differs-from-evaluation-of-the-program", "as built, the schedule evaluated top-down from the program alone "
                 "(start of the level, relation equations, start + duration) = the reported schedule", "start_time / end_time",
                 {"item": list(p), "reported": [rs, re_]}, [s, e], g)
            return None
    return [{"item": list(p), "expected": [s, e], "reported": [rep[id(by_path[p])][0], rep[id(by_path[p])][2]]} for p, (s, e) in sorted(expected.items())]


# ------------------------------------------------------------------------------------------------
# Jobs: a job is a list of programs (or a compact description of an exhaustive slice) evaluated in one worker
# ------------------------------------------------------------------------------------------------
_DEADLINE = [None]


def states_for(program, mode):
    st = program_stats(program)
    if mode == "all":
        return list(STATES)
    if st["sub"] == 0 and st["rep"] == 0:
        return ["none"] if mode == "lean" else ["none", "flat"]
    return ["none", "mod"] if mode == "lean" else ["none", "mod", "modflat"]


def outside_exhaustive_families(program):
    """X1..X3 are flat with <= 3 items or relation-free, X4 has <= 3 items: a program with >= 4 items and a sub-circuit or an
    explicit relation cannot occur in them"""
    st = program_stats(program)
    return st["items"] >= 4 and (st["sub"] > 0 or st["rel"] > 0)


def run_program(program, mode, gnames, stats, salt=0, count=True, det=False):
    h = hashlib.blake2b(json.dumps(program, sort_keys=True).encode(), digest_size=8).digest()
    gbuild = gnames[(h[0] + salt) % len(gnames)]
    stats.programs += 1
    nt = nontrivial(program)
    if nt and count:
        stats.nontrivial += 1
    sched = {}
    for state in states_for(program, mode):
        res = check_case(program, state, gbuild, gnames, stats, det=det)
        if isinstance(res, tuple):
            sched[state] = res[1]
    if "mod" in sched and "modflat" in sched:
        stats.probe["flatten_compared"] += 1
        if sched["mod"] != sched["modflat"]:
            stats.probe["flatten_changes_schedule"] += 1
    return h, nt


def run_job(job):
    stats = Stats()
    L()
    try:
        gnames = job["gnames"]
        if job["type"] == "list":
            programs = job["programs"]
        else:
            programs = expand_slice(job)
        for program in programs:
            if _DEADLINE[0] is not None and time.time() > _DEADLINE[0]:
                stats.skip("time budget of the tier exhausted" + ((" (deterministic family, warm pass)" if job.get("pass") == "warm" else " (deterministic family, cold pass)") if job.get("det") else ""))
                continue
            if job.get("pass") == "warm":
                for history in HISTORIES:
                    check_warm(program, history, stats, det=True)
                continue
            h, nt = run_program(program, job["mode"], gnames, stats, count=not job.get("hash"), det=bool(job.get("det")))
            if nt and job.get("hash") and outside_exhaustive_families(program):
                stats.hashes.add(h)
    except Exception as e:  # harness problem: make it visible, do not hide it
        stats.skip("harness error: " + "".join(traceback.format_exception_only(type(e), e)).strip()[:300] +
                   " @ " + traceback.format_tb(e.__traceback__)[-1].strip()[:300])
    return stats


# ------------------------------------------------------------------------------------------------
# Enumeration of inputs
# ------------------------------------------------------------------------------------------------
def op(k, q, rel=None, **kw):
    it = {"k": k, "q": list(q) if isinstance(q, (list, tuple)) else [q]}
    if rel is not None:
        it["rel"] = list(rel)
    it.update(kw)
    return it


def sub(items, reps=1, rel=None):
    it = {"k": "sub", "reps": reps, "items": items}
    if rel is not None:
        it["rel"] = list(rel)
    return it


def alphabet(name):
    """reduced alphabets of leaf operations for the exhaustive families"""
    if name == "full":      # qubits 0..2
        out = [op("Wait", q, d=d, ch=ch) for q in (0, 1, 2) for d in (0.0, 1.0, 2.0, 5.0) for ch in ("ALL", "MW", "FL")]
        out += [op("Rx180", q) for q in (0, 1, 2)]
        out += [op("CPhase", p) for p in ((0, 1), (1, 2), (0, 2), (1, 0))]
        out += [op("DispersiveMeasure", q) for q in (0, 1, 2)]
        out += [op("Barrier", list(s)) for n in (1, 2, 3) for s in itertools.combinations((0, 1, 2), n)]
        return out
    if name == "medium":    # qubits 0..2, fewer wait variants
        out = [op("Wait", q, d=d) for q in (0, 1) for d in (0.0, 1.0, 2.0, 5.0)]
        out += [op("Wait", 0, d=2.0, ch="MW"), op("Wait", 1, d=5.0, ch="FL"), op("Wait", 0, d=1.0, ch="FL"), op("Wait", 2, d=2.0)]
        out += [op("Rx180", 0), op("Rx180", 1), op("CPhase", (0, 1)), op("CPhase", (1, 2)), op("DispersiveMeasure", 0),
                op("DispersiveMeasure", 1), op("Barrier", [0]), op("Barrier", [0, 1]), op("Barrier", [0, 1, 2])]
        return out
    if name == "small":
        return [op("Wait", 0, d=1.0), op("Wait", 0, d=0.0), op("Wait", 1, d=2.0), op("Wait", 1, d=5.0, ch="FL"), op("Wait", 0, d=5.0, ch="MW"),
                op("Rx180", 0), op("CPhase", (0, 1)), op("DispersiveMeasure", 1), op("Barrier", [0, 1])]
    if name == "tiny":
        return [op("Wait", 0, d=1.0), op("Wait", 1, d=2.0), op("Wait", 0, d=5.0, ch="MW"), op("Rx180", 1), op("CPhase", (0, 1)),
                op("Barrier", [0, 1])]
    raise ValueError(name)


def rel_options(n_before):
    return [None] + [[j, t] for j in range(n_before) for t in "FSE"]


def canonical(items):
    """qubits appear in the order 0, 1, 2 (programs equal up to renaming the qubits are enumerated once)"""
    seen = []

    def rec(its):
        for it in its:
            if it["k"] == "sub":
                rec(it["items"])
            else:
                for q in it["q"]:
                    if q not in seen:
                        seen.append(q)
    rec(items)
    return seen == sorted(seen) and seen == list(range(len(seen)))


def with_rel(it, rel):
    it = dict(it)
    if rel:
        it["rel"] = list(rel)
    return it


def expand_slice(job):
    """exhaustive slices: all programs of a family that begin with job['head'] (a tuple of alphabet indices)"""
    fam = job["family"]
    sigma = alphabet(job["alphabet"])
    head = job["head"]
    if fam == "flat":
        # all flat programs of exactly job['n'] items whose first len(head) kinds are fixed; every relation to every earlier item
        n = job["n"]
        for tail in itertools.product(range(len(sigma)), repeat=n - len(head)):
            idx = list(head) + list(tail)
            base = [sigma[i] for i in idx]
            if job.get("canonical", True) and not canonical(base):
                continue
            for rels in itertools.product(*[rel_options(i) for i in range(n)]):
                yield {"items": [with_rel(b, r) for b, r in zip(base, rels)]}
    elif fam == "implicit":
        n = job["n"]
        for tail in itertools.product(range(len(sigma)), repeat=n - len(head)):
            base = [sigma[i] for i in list(head) + list(tail)]
            yield {"items": [dict(b) for b in base]}
    elif fam == "nest":
        # total items (operations + sub-circuits) <= 3, nesting depth <= 2, repetitions 1..3
        x = sigma[head[0]]
        for shape in job["shapes"]:
            for prog in nest_shapes(shape, x, sigma):
                yield prog
    elif fam == "prefix":
        # [a, sub(r)[x, y rel]]: a sub-circuit with an internal relation that does not start at t = 0
        a = sigma[head[0]]
        for x in sigma:
            for y in sigma:
                for rel in rel_options(1):
                    for r in (1, 2, 3):
                        yield {"items": [dict(a), sub([dict(x), with_rel(y, rel)], r)]}
    elif fam == "nested":
        # [a, sub(r1)[x, sub(r2)[y, z rel]]] (and, shape 1, the inner sub-circuit first): nested repetition behind a prefix
        a, x = NESTED_PREFIX[head[0]], NESTED_OUTER[head[1]]
        for shape in job["shapes"]:
            for y in [sigma[head[2]]]:
                for z in sigma:
                    for rel in rel_options(1):
                        for r1 in (1, 2, 3):
                            for r2 in (1, 2, 3):
                                inner = sub([dict(y), with_rel(z, rel)], r2)
                                body = [dict(x), inner] if shape == 0 else [inner, dict(x)]
                                yield {"items": [dict(a), sub(body, r1)]}
    else:
        raise ValueError(fam)


def nest_shapes(shape, x, sigma):
    R = (1, 2, 3)
    if shape == "s(x)":
        for r in R:
            yield {"items": [sub([dict(x)], r)]}
    elif shape == "s(s(x))":
        for r1 in R:
            for r2 in R:
                yield {"items": [sub([sub([dict(x)], r2)], r1)]}
    elif shape == "s(x,y)":
        for y in sigma:
            for rel in rel_options(1):
                for r in R:
                    yield {"items": [sub([dict(x), with_rel(y, rel)], r)]}
    elif shape == "y,s(x)":
        for y in sigma:
            for rel in rel_options(1):
                for r in R:
                    yield {"items": [dict(y), sub([dict(x)], r, rel)]}
    elif shape == "s(x),y":
        for y in sigma:
            for rel in rel_options(1):
                for r in R:
                    yield {"items": [sub([dict(x)], r), with_rel(y, rel)]}
    elif shape == "root(x,y)":   # repetition count on the circuit itself
        for y in sigma:
            for rel in rel_options(1):
                for r in (2, 3):
                    yield {"items": [dict(x), with_rel(y, rel)], "reps": r}
    else:
        raise ValueError(shape)


NESTED_PREFIX = [{"k": "Wait", "q": [0], "d": 1.0}, {"k": "CPhase", "q": [0, 1]}]
NESTED_OUTER = [{"k": "Wait", "q": [0], "d": 1.0}, {"k": "Wait", "q": [1], "d": 2.0}]
NEST_SHAPES = ["s(x)", "s(s(x))", "s(x,y)", "y,s(x)", "s(x),y", "root(x,y)"]


def family_structured(rng, n, sigma_name="small"):
    """[a?] + sub(reps)[x, y, z?] + [b?]: relations of every type inside the sub-circuit and to the sub-circuit"""
    sigma = alphabet(sigma_name)
    out = []
    for _ in range(n):
        items = []
        if rng.random() < 0.6:
            items.append(dict(rng.choice(sigma)))
        if rng.random() < 0.25:
            items.append(with_rel(rng.choice(sigma), rng.choice(rel_options(len(items)))))
        body = []
        for j in range(rng.choice([2, 2, 3, 4])):
            it = with_rel(rng.choice(sigma), rng.choice(rel_options(j)) if rng.random() < 0.6 else None)
            body.append(it)
        if rng.random() < 0.3:
            inner = [with_rel(rng.choice(sigma), None), with_rel(rng.choice(sigma), rng.choice(rel_options(1)))]
            body.insert(rng.randrange(len(body) + 1), sub(inner, rng.choice([1, 2, 3])))
            body = fix_rels(body, rng)
        items.append(sub(body, rng.choice([1, 2, 2, 3, 3])))
        for _t in range(rng.choice([0, 1, 1, 2])):
            items.append(with_rel(rng.choice(sigma), rng.choice(rel_options(len(items))) if rng.random() < 0.6 else None))
        prog = {"items": items}
        if rng.random() < 0.1:
            prog["reps"] = rng.choice([2, 3])
        out.append(prog)
    return out


def fix_rels(items, rng):
    """after inserting an item: make every relation point to an earlier item again"""
    out = []
    for i, it in enumerate(items):
        it = dict(it)
        if it.get("rel"):
            if i == 0:
                it.pop("rel")
            else:
                it["rel"] = [rng.randrange(i), it["rel"][1]]
        out.append(it)
    return out


def kind_instances(k, q1, q2, qall, rng):
    if k in SQ_GLOBAL or k == "DispersiveMeasure" or k in SQ_ZERO:
        return op(k, q1)
    d = rng.choice([0.0, 0.0, 0.5, 1.0, 2.0, 5.0, 0.25])
    if k in SQ_FIXED:
        if k == "SingleQubitOperation":
            return op(k, q1, d=d)
        return op(k, q1, d=d, ch=rng.choice(["ALL", "ALL", "MW", "FL", "RO"]))
    if k in ("CPhase", "TwoQubitVirtualPhase"):
        return op(k, [q1, q2])
    if k == "TwoQubitOperation":
        return op(k, [q1, q2], d=d)
    if k == "VirtualTwoQubitVacant":
        return op(k, [q1, q2], d=d, ch=rng.choice(["ALL", "MW", "FL"]))
    if k in BARRIER_LIKE:
        return op(k, qall)
    raise ValueError(k)


def random_program(rng, max_items=6):
    pool = rng.choice([[5, 0, 3], [2, 7], [1, 4, 0, 6], [0, 1, 2]])
    budget = [rng.randint(2, max_items)]

    def items(depth, n):
        out = []
        for _ in range(n):
            if budget[0] <= 0:
                break
            budget[0] -= 1
            rel = None
            if out and rng.random() < 0.5:
                rel = [rng.randrange(len(out)), rng.choice("FSE")]
            if depth < 2 and rng.random() < 0.22 and budget[0] > 0:
                out.append(sub(items(depth + 1, rng.randint(1, 3)), rng.choice([1, 2, 2, 3]), rel))
                continue
            k = rng.choice(ALL_KINDS)
            q1 = rng.choice(pool)
            q2 = rng.choice([q for q in pool if q != q1])
            inst = kind_instances(k, q1, q2, rng.sample(pool, rng.randint(1, len(pool))), rng)
            if rel:
                inst["rel"] = rel
            out.append(inst)
        return out
    prog = {"items": items(0, budget[0])}
    if rng.random() < 0.08:
        prog["reps"] = rng.choice([2, 3])
    return prog


def family_kinds():
    """every operation kind, after two operations of different length on its channels, in every relation to each of them,
    at top level and inside a repeated sub-circuit"""
    rng = random.Random(1)
    progs = []
    a, b, c = 5, 0, 3
    for k in ALL_KINDS:
        variants = [kind_instances(k, b, c, [a, b, c], random.Random(s)) for s in range(4)] if (k in SQ_FIXED or k in TQ_KINDS) else \
            [kind_instances(k, b, c, [a, b, c], rng)]
        for inst in variants:
            for rel in rel_options(2):
                it = with_rel(inst, rel)
                body = [op("Reset", b), op("Wait", c, d=5.0), it, op("Ry90", c), op("Barrier", [b, c])]
                progs.append({"items": [dict(i) for i in body]})
                progs.append({"items": [op("Rx180", a), sub([dict(i) for i in body], 2), op("DispersiveMeasure", b)]})
    return progs


def family_edge():
    return [
        {"items": []},
        {"items": [op("Wait", 3, d=0.0)]},
        {"items": [op("Rx180", 0), sub([], 1)]},
        {"items": [op("Rx180", 0), sub([], 2), op("Ry90", 0)]},
        {"items": [sub([sub([], 1)], 3), op("Ry90", 2)]},
        {"items": [op("Wait", 0, d=1.0), op("Wait", 0, d=5.0, rel=[0, "E"]), op("Wait", 0, d=0.0, rel=[1, "S"])]},
        {"items": [sub([op("Wait", 0, d=1.0), op("Wait", 0, d=5.0, rel=[0, "E"]), op("Wait", 0, d=0.0, rel=[1, "S"])], 3), op("Rx180", 0)]},
        {"items": [sub([op("Wait", 0, d=5.0), op("Wait", 1, d=1.0, rel=[0, "S"])], 2), op("Rx180", 1)]},
        {"items": [op("Wait", 0, d=1.0), op("Wait", 0, d=1.0), op("Wait", 1, d=1.0), op("CPhase", [0, 1])]},
        {"items": [op("Wait", 0, d=1.0), op("Wait", 0, d=1.0), op("Wait", 0, d=1.0), op("Wait", 1, d=7.0), op("CPhase", [0, 1])]},
        {"items": [op("CPhase", [6, 6])]},
        {"items": [op("Wait", 0, d=1.0), sub([op("Wait", 1, d=1.0)], 2, rel=[0, "F"])]},
        {"items": [op("Rx180", 0), sub([op("Barrier", [0, 1]), sub([op("Rx180", 0), op("CPhase", [0, 1])], 2), op("Ry90", 1)], 2),
                   op("DispersiveMeasure", 0)], "reps": 2},
        # unrolled + flattened: an operation that followed a sub-circuit is re-linked behind the next repetition
        {"items": [sub([op("Wait", 1, d=5.0, ch="FL"), sub([op("Rx180", 0)], 1), op("Rx180", 0)], 2)]},
        {"items": [op("Hadamard", 6), sub([op("Barrier", [4, 1])], 2), op("Rx90", 6, rel=[1, "S"])], "reps": 2},
        # a sub-circuit whose explicit relation is dropped changes the predecessor choice of later items
        {"items": [op("VirtualEmpty", 2, d=5.0, ch="FL"), sub([op("Ry90", 1)], 3, rel=[0, "F"]), op("VirtualPark", 1), op("CPhase", [2, 1])]},
    ]


def family_library(thorough):
    combos = [("01", 1), ("01", 2), ("010", 3), ("0+1", 5)] + ([("0101", 4), ("01", 7), ("010", 6)] if thorough else [])
    return [{"lib": "repcode_simplified", "states": s, "cycles": c} for s, c in combos]


def chunks(lst, n):
    for i in range(0, len(lst), n):
        yield lst[i:i + n]


def make_jobs(tier, seed):
    """deterministic families first (independent of --seed: enumerations and fixed lists, cold pass and warm pass), then the seeded ones"""
    thorough = tier == "thorough"
    rng = random.Random(seed * 7919 + (1 if thorough else 0))
    gn_ex = ["file", "A", "Z"] if not thorough else ["file", "A", "B", "Z"]
    gn_all = ["file", "A", "B", "Z"]
    det, seeded, summary = [], [], []

    def add_exhaustive(name, family, alpha, n, heads, mode, gnames, warm=False, **kw):
        for head in heads:
            job = dict({"type": "slice", "family": family, "alphabet": alpha, "n": n, "head": list(head), "mode": mode,
                        "gnames": gnames, "det": True, "name": name[:2]}, **kw)
            det.append(job)
            if warm:
                det.append(dict(job, **{"pass": "warm", "name": name[:2] + "w"}))
        summary.append(name)

    def heads(alpha, k):
        return list(itertools.product(range(len(alphabet(alpha))), repeat=k))

    a_flat3 = "full" if thorough else "small"
    add_exhaustive(f"X1: ALL flat programs of 1..2 items over alphabet 'full' ({len(alphabet('full'))} operations: Wait d in 0/1/2/5 x channel ALL/MICROWAVE/FLUX, "
                   "Rx180, CPhase, DispersiveMeasure, Barrier on every qubit subset; qubits 0..2 up to renaming) x every relation type to the earlier item",
                   "flat", "full", 2, heads("full", 1), "full", gn_all, warm=True)
    add_exhaustive("X1 (one item)", "flat", "full", 1, [()], "full", gn_all, warm=True)
    summary.pop()
    add_exhaustive(f"X2: ALL flat programs of 3 items over alphabet '{a_flat3}' ({len(alphabet(a_flat3))} operations) x every relation type to every earlier item "
                   "(28 relation assignments per kind triple), qubits up to renaming (cold pass only: without sub-circuit and repetition no time is evaluated before the "
                   "last structural change)", "flat", a_flat3, 3, heads(a_flat3, 2), "lean", gn_ex)
    a_imp = "small" if thorough else "tiny"
    n_imp = 5 if thorough else 4
    add_exhaustive(f"X3: ALL relation-free programs of {n_imp} items over alphabet '{a_imp}' ({len(alphabet(a_imp))} operations): implicit predecessor choice "
                   "with chains of different depth", "implicit", a_imp, n_imp, heads(a_imp, 2), "lean", gn_ex, warm=True)
    a_nest = "full" if thorough else "medium"
    gn_nest = gn_ex if thorough else ["file", "A"]
    add_exhaustive(f"X4: ALL nested programs with <= 3 items in total (operations + sub-circuits), nesting depth <= 2, repetition counts 1..3, shapes {NEST_SHAPES} "
                   f"over alphabet '{a_nest}' ({len(alphabet(a_nest))} operations) x every relation (inside the sub-circuit, to the sub-circuit, of the sub-circuit), "
                   "states built / unrolled / unrolled+flattened", "nest", a_nest, 3, heads(a_nest, 1), "full", gn_nest, warm=True, shapes=NEST_SHAPES)
    a_pre = "medium" if thorough else "small"
    add_exhaustive(f"X5: ALL programs [a, sub(reps 1..3)[x, y with every relation to x]] over alphabet '{a_pre}' ({len(alphabet(a_pre))} operations): a sub-circuit with an "
                   "internal relation that does not start at t = 0", "prefix", a_pre, 4, heads(a_pre, 1), "lean", gn_nest, warm=True)
    nshapes = [0, 1] if thorough else [0]
    add_exhaustive(f"X6: ALL programs [a, sub(r1)[x, sub(r2)[y, z with every relation to y]]] (thorough: also with the inner sub-circuit first), r1, r2 in 1..3, "
                   f"a in {len(NESTED_PREFIX)} prefixes, x in {len(NESTED_OUTER)} operations, y, z over alphabet 'tiny' ({len(alphabet('tiny'))} operations): nested "
                   "repetition behind a prefix", "nested", "tiny", 5, list(itertools.product(range(len(NESTED_PREFIX)), range(len(NESTED_OUTER)), range(len(alphabet("tiny"))))), "lean", gn_nest,
                   warm=True, shapes=nshapes)
    for name, progs in (("R1", family_kinds()), ("R2", family_edge()), ("R5", family_library(thorough))):
        for ch in chunks(progs, 50 if name != "R5" else 1):
            job = {"type": "list", "programs": ch, "mode": "all", "gnames": gn_all, "hash": True, "name": name, "det": True}
            det.append(job)
            det.append(dict(job, **{"pass": "warm", "name": name + "w"}))
    summary.append(f"R1: every operation kind ({len(ALL_KINDS)}) x every relation to two earlier operations, at top level and inside a sub-circuit repeated twice "
                   f"({len(family_kinds())} programs, all four states)")
    summary.append(f"R2: {len(family_edge())} edge programs (empty circuits / sub-circuits, start before the first-added operation, last-ending operation that is no "
                   "relation leaf, deepest-vs-latest predecessor, repeated root)")
    summary.append(f"R5: {len(family_library(thorough))} library-built repetition-code circuits (construct_repetition_code_circuit_simplified, cycles 1..{7 if thorough else 5}) in all "
                   "four states: link-level oracle and repetition-chain clause only")

    # seeded random families -----------------------------------------------------------------------------------------------
    n_rand = 100000 if thorough else 6000
    n_struct = 60000 if thorough else 3000
    rand = [random_program(rng) for _ in range(n_rand)]
    struct = family_structured(rng, n_struct)
    for name, progs in (("R3", struct), ("R4", rand)):
        for ch in chunks(progs, 50):
            seeded.append({"type": "list", "programs": ch, "mode": "full", "gnames": gn_all, "hash": True, "name": name})
    summary.append(f"R3 (seeded): {n_struct} programs [a?] sub(reps 1..3)[2..4 items, optional inner sub] [b..] over alphabet 'small'")
    summary.append(f"R4 (seeded): {n_rand} random programs of 2..6 items over ALL {len(ALL_KINDS)} operation kinds, qubit pools of 2..4, nesting <= 2, repetitions 1..3, "
                   "durations 0 / 0.25 / 0.5 / 1 / 2 / 5")

    def round_robin(jobs, shuffler):
        by_name = {}
        for j in jobs:
            by_name.setdefault(j["name"], []).append(j)
        for lst in by_name.values():
            shuffler.shuffle(lst)
        out = []
        for group in itertools.zip_longest(*by_name.values()):
            out.extend(j for j in group if j is not None)
        return out
    # the warm jobs and the small deterministic families first, then the large enumerations, then the seeded samples
    first = [j for j in det if j["name"].endswith("w")]
    rest = [j for j in det if not j["name"].endswith("w")]
    return round_robin(first, random.Random(0)) + round_robin(rest, random.Random(0)) + round_robin(seeded, rng), summary


# ------------------------------------------------------------------------------------------------
# Main
# ------------------------------------------------------------------------------------------------
def _init_worker(deadline):
    _DEADLINE[0] = deadline
    L()


def main(argv=None):
    args = common.parse_args(argv)
    if args.replay:
        return replay(args.replay)
    res = common.Result(PROP)
    L()
    jobs, summary = make_jobs(args.tier, args.seed)
    budget = float(os.environ.get("C01_BUDGET_S", 540.0 if args.tier == "thorough" else 50.0))
    deadline = time.time() + budget
    total = Stats()
    nproc = min(16, os.cpu_count() or 1)
    ctx = mp.get_context("fork")
    with ctx.Pool(nproc, initializer=_init_worker, initargs=(deadline,)) as pool:
        for st in pool.imap_unordered(run_job, jobs, chunksize=1):
            total.merge(st)

    n = total.n
    cut = [k for k in total.skipped if k.startswith("time budget")]
    res.evaluations = sum(n.values())
    res.distinct = total.nontrivial + len(total.hashes)
    det_complete = not any("deterministic" in k for k in cut) and not any(k.startswith("harness") for k in total.skipped)
    res.exhaustive = det_complete
    res.rule = ("build programs (JSON: sequences of add-operation / add-sub-circuit calls; operation kind, qubits, channel, fixed duration, relation "
                "none / FOLLOWED_BY / JOINED_START / JOINED_END to an earlier item of the same level, sub-circuits with repetition count and nesting <= 2, repetition "
                "count on the circuit itself) built through DeclarativeCircuit.add; states: as built, after apply_modifiers, after apply_modifiers+flatten, after "
                "flatten; every built circuit is evaluated under the global duration settings 'file' (repository configuration) and overrides via "
                f"temporary_override_get_registry_at A={GLOBALS['A']}, B={GLOBALS['B']}, Z={GLOBALS['Z']} (built under one of them, chosen by program hash). "
                "COLD pass: times are read after circuit.operations (hand-down) and after clearing the start-time memos. WARM pass (deterministic families except X2; "
                "durations 'file'): memos cleared, build, apply_modifiers when something is repeated, then history 'listing' (circuit.operations, start/end of every listed "
                "operation) or 'duration-first' (circuit.duration before that) with NO memo cleared; reported values against the own solution of the relation equations. "
                "Families: " + " || ".join(summary) +
                ". 'exhaustive' refers to the deterministic families X1..X6, R1, R2, R5 (they do not depend on --seed, run first, and are complete unless the time budget "
                "cut them: see 'skipped'); every failure record carries 'instances' = the failing inputs of the deterministic families (fingerprints; all of them are "
                "written to <out>.instances.json). "
                "Non-trivial = at least two items and at least one relation (explicit or implicit predecessor) or a sub-circuit; distinct = non-trivial programs of "
                "the exhaustive families (duplicate-free and pairwise disjoint by construction) + distinct hashes of those listed / sampled programs that cannot occur in "
                "an exhaustive family (>= 4 items with a sub-circuit or an explicit relation); smaller sampled programs are evaluated but not counted.")
    res.samples = total.samples[:6]
    bound = f"{total.programs} programs, {total.circuits} built circuits, tier {args.tier}, seed {args.seed}"
    res.stand_ins = [
        {"function": "RelationLink.get_start_time (+ add_to_graph, copy)", "contract": "clause 'FOLLOWED_BY starts when the referenced operation ends, JOINED_START starts when "
         "it starts, JOINED_END ends when it ends': for every item added with an explicit relation (operations and sub-circuits, top level and nested, every repetition) "
         "the reported start/end satisfy the equation against the reported start/end of the instance of the referenced item in the same copy", "bound": bound,
         "evaluations": n["explicit"]},
        {"function": "CircuitGraphBranch.get_leaf_at_any / add_to_graph", "contract": "clause 'an operation added without a relation is FOLLOWED_BY the operation deepest in "
         "relation steps that shares one of its qubit channels': reported start = reported end of one of the deepest channel-sharing earlier items of the level (depth and "
         "channels from the program and an own kind -> channel table; ties accepted)", "bound": bound, "evaluations": n["implicit"]},
        {"function": "add_to_graph / decomposed_operations (hand-down)", "contract": "clauses 'no relation starts with its enclosing (sub-)circuit' / 'at the circuit start if there "
         "is none': an item without relation and without channel-sharing predecessor reports the start of the enclosing (sub-)circuit instance", "bound": bound,
         "evaluations": n["root"]},
        {"function": "duration (IDurationStrategy, GlobalDurationRegistry)", "contract": "reported duration of a leaf operation = fixed duration of the program / global setting of "
         "the key of its kind (own table), under every duration setting", "bound": bound, "evaluations": n["duration"]},
        {"function": "IDurationComponent.end_time", "contract": "clause 'end = start + duration' on every operation and sub-circuit", "bound": bound, "evaluations": n["end"]},
        {"function": "CircuitCompositeOperation.extend / repeat, MultiRelationLink.reference_node", "contract": "clause 'the same equations hold after repetitions are unrolled': "
         "at every extend call (recorded by a wrapper) the first-level operations of the appended copy afterwards report start = max reported end over the relation leaves "
         "(own pointer walk before the call) of what precedes; operations with a relation keep their link; every item occurs once per repetition", "bound": bound,
         "evaluations": n["chain-start"] + n["chain-link"] + n["instances"]},
        {"function": "RelationLink / MultiRelationLink.get_start_time on the real link fields", "contract": "oracle (B): reported start of every operation and sub-circuit = the "
         "relation equation of its link, read from the fields _reference_node(s) / _relation_type (MultiRelationLink: first latest-ending member; no reference: 0), applied to "
         "the reported start / end of the referenced operation; reported duration of a leaf = strategy field / explicit table entry of its key; states built / unrolled / "
         "unrolled+flattened / flattened", "bound": bound, "evaluations": n["link-level"]},
        {"function": "start_time / end_time as reported through the public API (lru_cache of RelationLink / MultiRelationLink.get_start_time)", "contract": "WARM pass: after "
         "build [-> apply_modifiers] [-> circuit.duration] -> circuit.operations, with no memo cleared since before the build, start and end of every listed operation = own "
         "recursive solution of the relation equations over the link fields (leaf durations from strategy fields / repository configuration, sub-circuit durations as "
         f"reported with fresh memos); {total.warm_cases} (program, history) cases", "bound": bound, "evaluations": n["warm"]},
        {"function": "whole schedule", "contract": "as built: the schedule evaluated top-down from the program alone equals the reported one (consistency of the local checks)",
         "bound": bound, "evaluations": n["global"]},
    ]
    pr = total.probe
    res.probes = [
        {"assumption": f"own kind -> channel table equals the channels the real operations declare ({pr['channel_table_checked']} operations; mismatches by kind: "
                       f"{pr['channel_table_mismatch']}; expected only for copies of VirtualTwoQubitVacant, whose copy() drops the channel)",
         "ok": set(pr["channel_table_mismatch"]) <= {"VirtualTwoQubitVacant(copy)"}},
        {"assumption": f"reading circuit.operations re-links first-level operations of sub-circuits (hand-down; seen in {pr['first_read_relinks']} circuits); times are read after it",
         "ok": True},
        {"assumption": f"flattening is not part of the C01 statement: it re-links operations that followed a sub-circuit, the schedule changed in {pr['flatten_changes_schedule']} "
                       f"of {pr['flatten_compared']} unrolled programs (only the link-level oracle is applied to flattened circuits)", "ok": True},
        {"assumption": f"inputs contain the hard cases: {pr['negative_starts']} reported negative starts (operations starting before the first-added one), {pr['zero_length']} "
                       f"zero-length operation readings, {pr['ties']} implicit choices with several equally deep candidates, {pr['multi_links']} MultiRelationLinks", "ok":
         pr["negative_starts"] > 0 and pr["zero_length"] > 0 and pr["multi_links"] > 0},
        {"assumption": f"circuits per state: {pr['states']}", "ok": all(v > 0 for v in pr["states"].values())},
        {"assumption": f"warm pass: the own solver agrees with the library read with fresh memos ({pr['warm_own_vs_cold_mismatch']} of {total.warm_cases} cases disagree; "
                       "such cases are left to the cold pass)", "ok": pr["warm_own_vs_cold_mismatch"] == 0},
    ]
    all_instances = {}
    for k, f in total.failures.items():
        f.pop("_size", None)
        d = total.instances.get(k, {})
        part_complete = not any(k_.startswith("harness") for k_ in total.skipped) and \
            not any(("warm pass" if k.startswith(f"{PROP}:warm:") else "cold pass") in k_ for k_ in cut)
        f["instances"] = {"complete": bool(part_complete and k not in total.inst_overflow), "count": int(total.inst_count.get(k, 0)), "fps": sorted(d)}
        all_instances.update(d)
    if args.out:
        base = args.out[:-5] if args.out.endswith(".json") else args.out
        os.makedirs(os.path.dirname(os.path.abspath(base)), exist_ok=True)
        with open(base + ".instances.json", "w") as fh:
            json.dump({fp: all_instances[fp] for fp in sorted(all_instances)}, fh, indent=0, default=str)
    res.failures = total.failures
    res.skipped = total.skipped
    out = res.write(args.out)
    print(f"{PROP} bounded: {out['evaluations']} evaluations, {total.programs} programs, {total.circuits} circuits, {out['distinct_nontrivial']} non-trivial, "
          f"{len(out['failures'])} failure keys, skipped {out['skipped']}, exhaustive {out['exhaustive']}, {out['wall_s']} s")
    for f in out["failures"]:
        print("  FAILURE", f["key"])
    harness = [k for k in out["skipped"] if k.startswith("harness error")]
    if harness or total.circuits == 0:
        print("HARNESS ERROR:", harness or "no case was evaluated")
        return 2
    return 0


def replay(path):
    rec, a = common.load_replay(path)
    key = a.get("key") or rec.get("key") or rec.get("id") or rec.get("obligation")
    if a.get("history"):
        print(f"replaying {key}")
        print(" program:", json.dumps(a["program"]))
        print(f" warm pass, history {a['history']} (memos cleared before the build only)")
        stats = Stats()
        check_warm(a["program"], a["history"], stats, verbose=True, det=False)
        print(" failure keys now:", sorted(stats.failures))
        if key in stats.failures:
            print(" observed:", json.dumps(stats.failures[key]["observed"], default=str))
            print(" required:", json.dumps(stats.failures[key]["required"], default=str))
            print(f"VIOLATION property={PROP} replay={path}")
            return 1
        print(" the recorded failure does not reproduce")
        return 0
    program, state, gbuild = a["program"], a.get("state", "none"), a.get("G_build", "file")
    gnames = [a["G"]] if a.get("G") else list(GLOBALS)
    print(f"replaying {key}")
    print(" program:", json.dumps(program))
    print(f" state: {state}; built under durations {gbuild}; evaluated under {gnames}")
    stats = Stats()
    L()
    check_case(program, state, gbuild, gnames, stats, verbose=True)
    if key not in stats.failures and a.get("G"):
        check_case(program, state, gbuild, list(GLOBALS), stats, verbose=False)
    print(" failure keys now:", sorted(stats.failures))
    if key in stats.failures:
        f = stats.failures[key]
        print(" observed:", json.dumps(f["observed"], default=str))
        print(" required:", json.dumps(f["required"], default=str))
        print(f"VIOLATION property={PROP} replay={path}")
        return 1
    print(" the recorded failure does not reproduce")
    return 0


if __name__ == "__main__":
    sys.exit(main())
