#!/usr/bin/env python
"""Bounded run-time stand-in for property C06 (applying repetition modifiers unrolls n back-to-back copies, once).

Real circuits are built through the public API (`DeclarativeCircuit`, the operation classes, the three repetition
strategies, the repetition-code constructors), really unrolled with `DeclarativeCircuit.apply_modifiers()` and the
result is judged against an oracle that does not use the code under test:

* the *input* of `apply_modifiers` is read back from the real objects by an own walk over the pointer fields
  (`_outgoing_pointers`) and the link fields (no library traversal, no `circuit.operations`, so nothing is re-linked);
  the repetition count of every sub-circuit is taken from the build program (the strategy *object* identifies the
  program item), never from `nr_of_repetitions` / `get_repetition_number` / `get_registry_at`;
* an own abstract unroller, written from the property statement (n copies of the content, copy k chained
  FOLLOWED_BY the latest-ending relation leaf of copies 0..k-1, nested counts multiply), produces the expected
  circuit; an own evaluator of the relation equations gives the expected (kind, qubits, duration, start, end) multiset;
* the *output* is read through the public listing (`circuit.operations`) and evaluated with an own evaluator of the
  relation equations over the link FIELDS of the real objects (never `get_start_time`); the times the library reports
  (memos cleared first: stale memos are C03's business) are compared as well;
* closed forms: kind counts = content x product of enclosing counts (from the JSON program), n*T.

Reading order (decided consciously): the input is read by the own walk BEFORE `apply_modifiers` without calling
`circuit.operations` (unless the program says `pre_read`, a user who looks at `circuit.operations` first, as the
repository's own test does); "untouched" and the structural idempotence snapshot are read by the own walk directly
after `apply_modifiers`, still before any `circuit.operations`; the schedule is read AFTER `circuit.operations`
(which hands the sub-circuit's link down to relation-less first-level operations: that hand-down is modelled in the
oracle) and after `common.clear_caches()`.

See bounded/README.md for the command line and the output format.
"""
import os
import sys

os.environ.setdefault("MPLBACKEND", "Agg")
os.environ.setdefault("TQDM_DISABLE", "1")

import contextlib
import hashlib
import itertools
import json
import multiprocessing as mp
import random
import time
import traceback
import warnings
from collections import Counter

sys.path.insert(0, os.path.dirname(os.path.dirname(os.path.abspath(__file__))))
from bounded import common  # noqa: E402

PROP = "C06"
ND = 9  # decimals for comparing times

# global duration settings (exact binary fractions -> exact float arithmetic); 'file' = repository configuration
GLOBALS = {
    "file": None,
    "A": {"READOUT": 5.0, "MICROWAVE": 3.0, "FLUX": 4.0, "RESET": 7.0},
    "B": {"READOUT": 1.0, "MICROWAVE": 0.5, "FLUX": 0.25, "RESET": 1.5},
}
SQ_GLOBAL = {"Reset": "RESET", "Identity": "MICROWAVE", "Hadamard": "MICROWAVE", "Rx180": "MICROWAVE",
             "Rx90": "MICROWAVE", "Rxm90": "MICROWAVE", "Ry180": "MICROWAVE", "Ry90": "MICROWAVE",
             "Rym90": "MICROWAVE", "Rx180ef": "MICROWAVE", "VirtualPhase": "MICROWAVE", "Rphi90": "MICROWAVE",
             "VirtualPark": "FLUX"}
SQ_FIXED = ["Wait", "SingleQubitOperation", "VirtualVacant", "VirtualEmpty"]
TQ_KINDS = ["CPhase", "VirtualTwoQubitVacant", "TwoQubitOperation", "TwoQubitVirtualPhase"]
ALL_KINDS = list(SQ_GLOBAL) + SQ_FIXED + TQ_KINDS + ["DispersiveMeasure", "Barrier"]
CH = {"ALL": "ALL", "MW": "MICROWAVE", "FL": "FLUX", "RO": "READOUT"}
RELT = {"F": "FOLLOWED_BY", "S": "JOINED_START", "E": "JOINED_END"}
SRC_NAME = {"F": "fixed", "R": "registry", "D": "dynamic"}


# ------------------------------------------------------------------------------------------------
# Library access (imported once, before the pool forks)
# ------------------------------------------------------------------------------------------------
class _L:
    ready = False


def L():
    if _L.ready:
        return _L
    warnings.simplefilter("ignore")
    from qce_circuit.language.declarative_circuit import DeclarativeCircuit
    from qce_circuit.language.intrf_declarative_circuit import InitialStateEnum, InitialStateContainer
    from qce_circuit.structure import circuit_operations as co
    from qce_circuit.structure import registry_duration as rd
    from qce_circuit.structure import registry_repetition as rr
    from qce_circuit.structure.intrf_circuit_operation import (RelationLink, MultiRelationLink, RelationType, QubitChannel)
    from qce_circuit.library.repetition_code import circuit_constructors as cc
    _L.DeclarativeCircuit, _L.InitialStateEnum, _L.InitialStateContainer = DeclarativeCircuit, InitialStateEnum, InitialStateContainer
    _L.co, _L.rd, _L.rr, _L.cc = co, rd, rr, cc
    _L.RelationLink, _L.MultiRelationLink, _L.RelationType, _L.QubitChannel = RelationLink, MultiRelationLink, RelationType, QubitChannel
    warnings.simplefilter("ignore")  # again: the library installs its own filters at import time
    _L.ready = True
    return _L


def table_of(gname):
    lib = L()
    if GLOBALS[gname] is not None:
        return dict(GLOBALS[gname])
    reg = lib.rd.GlobalDurationRegistryManager.read_config()._global_registry
    return {k.name: float(reg[k.value]) for k in lib.rd.GlobalRegistryKey}


@contextlib.contextmanager
def global_setting(gname):
    lib = L()
    if GLOBALS[gname] is None:
        yield
        return
    tab = {getattr(lib.rd.GlobalRegistryKey, k): v for k, v in GLOBALS[gname].items()}
    with lib.rd.temporary_override_get_registry_at(tab):
        yield


# ------------------------------------------------------------------------------------------------
# Building circuits from JSON programs (public API only)
# ------------------------------------------------------------------------------------------------
class Built:
    def __init__(self):
        self.circuit = None
        self.counts = {}        # id(strategy object) -> (count from the program, source F/R/D, path)
        self.keep = []          # keeps the strategy objects alive (ids stay valid)
        self.registry = None
        self.registry_keys = []


def _make_op(lib, it, rel, acq):
    k, q = it["k"], it["q"]
    co, rd = lib.co, lib.rd
    kw = {}
    if rel is not None:
        kw["relation"] = rel
    if k in SQ_GLOBAL:
        return getattr(co, k)(q[0], **kw)
    if k in SQ_FIXED:
        kw["duration_strategy"] = rd.FixedDurationStrategy(duration=float(it.get("d", 0.0)))
        if k != "SingleQubitOperation":
            kw["qubit_channel"] = getattr(lib.QubitChannel, CH[it.get("ch", "ALL")])
        return getattr(co, k)(q[0], **kw)
    if k == "CPhase" or k == "TwoQubitVirtualPhase":
        return getattr(co, k)(q[0], q[1], **kw)
    if k in ("TwoQubitOperation", "VirtualTwoQubitVacant"):
        kw["duration_strategy"] = rd.FixedDurationStrategy(duration=float(it.get("d", 0.0)))
        if k == "VirtualTwoQubitVacant" and it.get("ch"):
            kw["qubit_channel"] = getattr(lib.QubitChannel, CH[it["ch"]])
        return getattr(co, k)(q[0], q[1], **kw)
    if k == "DispersiveMeasure":
        return co.DispersiveMeasure(q[0], acquisition_strategy=acq, **kw)
    if k == "Barrier":
        op = co.Barrier(list(q))
        if rel is not None:
            op.relation_link = rel
        return op
    raise ValueError(f"unknown kind {k}")


def _strategy(lib, built, reps, src, path):
    reps = int(reps)
    if src == "R":
        s = lib.rr.RegistryRepetitionStrategy(registry=built.registry, registry_key=path)
        if reps != 1:      # a count of 1 is "provided" by leaving the key unset (the registry's default)
            built.registry_keys.append((path, reps))
    elif src == "D":
        s = lib.rr.DynamicRepetitionStrategy(repetitions_call=(lambda n=reps: n))
    else:
        s = lib.rr.FixedRepetitionStrategy(repetitions=reps)
    built.keep.append(s)
    built.counts[id(s)] = (reps, src, path)
    return s


def _build_items(lib, built, circ, items, acq, path):
    added = []
    for i, it in enumerate(items):
        rel = None
        if it.get("rel"):
            idx, t = it["rel"]
            rel = lib.RelationLink(added[idx], getattr(lib.RelationType, RELT[t]))
        if it["k"] == "sub":
            p = f"{path}.{i}"
            kw = {"repetition_strategy": _strategy(lib, built, it.get("reps", 1), it.get("src", "F"), p)}
            if rel is not None:
                kw["relation"] = rel
            sub = lib.DeclarativeCircuit(**kw)
            _build_items(lib, built, sub, it["items"], acq, p)
            added.append(circ.add(sub))
        else:
            added.append(circ.add(_make_op(lib, it, rel, acq)))
    return added


def build(program):
    """the real circuit of a program, NOT yet unrolled"""
    lib = L()
    built = Built()
    if "lib" in program:
        states = {"0": lib.InitialStateEnum.ZERO, "1": lib.InitialStateEnum.ONE, "+": lib.InitialStateEnum.PLUS,
                  "-": lib.InitialStateEnum.MINUS}
        init = lib.InitialStateContainer.from_ordered_list([states[c] for c in program["states"]])
        fn = {"repcode": lib.cc.construct_repetition_code_circuit,
              "repcode_simplified": lib.cc.construct_repetition_code_circuit_simplified}[program["lib"]]
        built.circuit = fn(initial_state=init, qec_cycles=int(program["cycles"]))
        return built
    built.registry = lib.rr.RepetitionRegistry()
    root = program.get("root") or {}
    circ = lib.DeclarativeCircuit(repetition_strategy=_strategy(lib, built, root.get("reps", 1), root.get("src", "F"), "root"))
    _build_items(lib, built, circ, program["items"], circ.get_acquisition_strategy(), "root")
    # registry-provided counts are provided AFTER building (they are read when the modifiers are applied)
    for key, reps in built.registry_keys:
        built.registry.set_registry_at(key, reps)
    built.circuit = circ
    return built


# ------------------------------------------------------------------------------------------------
# Own walk over the real objects (pointer fields and link fields only)
# ------------------------------------------------------------------------------------------------
def is_composite(op):
    return hasattr(op, "_circuit_graph")


def composite_nodes(comp):
    """(depth-1 nodes, leaf nodes, all nodes) by an own breadth-first walk over the pointer fields"""
    graph = comp._circuit_graph
    root, end = graph._entrypoint_node, graph._endpoint_node
    depth1 = [n for n in root._outgoing_pointers if n is not end]
    leaves, allnodes, seen = [], [], set()
    frontier = list(depth1)
    while frontier:
        nxt = []
        for n in frontier:
            if id(n) in seen:
                continue
            seen.add(id(n))
            allnodes.append(n)
            succ = [m for m in n._outgoing_pointers if m is not end]
            if not succ:
                leaves.append(n)
            nxt.extend(succ)
        frontier = nxt
    return depth1, leaves, allnodes


def op_qubits(op):
    if hasattr(op, "qubit_indices"):
        return list(op.qubit_indices)
    if hasattr(op, "control_qubit_index"):
        return [op.control_qubit_index, op.target_qubit_index]
    if hasattr(op, "qubit_index"):
        return [op.qubit_index]
    return [ci.id for ci in op.channel_identifiers]


def dur_descr(op):
    s = getattr(op, "duration_strategy", None)
    n = type(s).__name__
    if n == "FixedDurationStrategy":
        return ("fixed", s.duration)
    if n == "GlobalDurationStrategy":
        return ("global", s.key.name)
    return (n,)


def sig_of(op):
    """what makes a copy a copy: kind, qubits, duration rule, channels"""
    try:
        chans = tuple(sorted({ci.channel.name for ci in op.channel_identifiers}))
    except Exception:  # noqa
        chans = ("?",)
    return (type(op).__name__, tuple(op_qubits(op)), dur_descr(op), chans)


def link_fields(link):
    if type(link).__name__ == "MultiRelationLink":
        return ("multi", tuple(id(r) for r in link._reference_nodes), link._relation_to_group.name, link._relation_type.name)
    return ("single", id(link._reference_node) if link._reference_node is not None else None, link._relation_type.name)


def walk_snapshot(root):
    """structure of the whole circuit by the own walk: per composite the listed objects with their link and fields"""
    out = []

    def rec(comp, path):
        d1, leaves, nodes = composite_nodes(comp)
        out.append((path, id(comp), tuple((id(n.operation), id(n.operation.relation), link_fields(n.operation.relation),
                                            id(getattr(n.operation, "duration_strategy", None)),
                                            None if is_composite(n.operation) else sig_of(n.operation)) for n in nodes),
                    tuple(id(n.operation) for n in d1), tuple(id(n.operation) for n in leaves)))
        for i, n in enumerate(nodes):
            if is_composite(n.operation):
                rec(n.operation, path + (i,))
    rec(root, ())
    return out


def all_composites(root):
    out = [root]
    for n in composite_nodes(root)[2]:
        if is_composite(n.operation):
            out.extend(all_composites(n.operation))
    return out


def leaf_ops(root):
    out = []
    for n in composite_nodes(root)[2]:
        if is_composite(n.operation):
            out.extend(leaf_ops(n.operation))
        else:
            out.append(n.operation)
    return out


def leaf_duration(op, T):
    s = op.duration_strategy
    n = type(s).__name__
    if n == "GlobalDurationStrategy":
        return T[s.key.name]
    if n == "FixedDurationStrategy":
        return s.duration
    if n == "RegistryDurationStrategy":
        return s.registry._variable_durations.get(s.registry_key, s.registry._default_duration)
    if n == "DynamicDurationStrategy":
        return s.duration_call()
    if n == "GlobalDecouplingWaitDurationStrategy":  # repetition-code library: half of (readout - microwave), floor 0
        return max(0.0, 0.5 * (T["READOUT"] - T["MICROWAVE"]))
    raise TypeError(f"unknown duration strategy {n}")


class RealEvaluator:
    """relation equations over the link fields of the real objects; never calls get_start_time / start_time.
    Composite duration = earliest start to latest end over EVERY node the block lists (the statement's definition;
    whether the library's `duration` agrees is property C04's business and shows up here in the 'reported' clause)."""

    def __init__(self, table):
        self.T = table
        self._s, self._d = {}, {}

    def dur(self, op):
        k = id(op)
        if k in self._d:
            return self._d[k]
        if is_composite(op):
            nodes = composite_nodes(op)[2]
            v = 0.0
            if nodes:
                rel = min(self.start(n.operation) for n in nodes)
                for n in nodes:
                    delta = self.end(n.operation) - rel
                    if delta > v:
                        v = delta
        else:
            v = leaf_duration(op, self.T)
        self._d[k] = v
        return v

    def _ref(self, link):
        if type(link).__name__ == "MultiRelationLink":
            refs = link._reference_nodes
            if not refs:
                return None
            # the library's semantics for EVERY multi-link: the latest-ending member (first one on ties); the declared group
            # type is semantically inert in the library (reference_node never reads it), so it is not read here either
            latest = refs[0]
            for r in refs:
                if self.end(r) > self.end(latest):
                    latest = r
            return latest
        return link._reference_node

    def start(self, op):
        k = id(op)
        if k in self._s:
            return self._s[k]
        link = op.relation
        ref = self._ref(link)
        if ref is None:
            v = 0.0
        else:
            t = link._relation_type.name
            if t == "FOLLOWED_BY":
                v = self.end(ref)
            elif t == "JOINED_START":
                v = self.start(ref)
            elif t == "JOINED_END":
                v = self.end(ref) - self.dur(op)
            else:
                raise TypeError(t)
        self._s[k] = v
        return v

    def end(self, op):
        return self.start(op) + self.dur(op)


# ------------------------------------------------------------------------------------------------
# The oracle: abstract circuit, own unroller (from the property statement), own evaluator
# ------------------------------------------------------------------------------------------------
class A:
    """abstract node: a leaf operation (sig, dur) or a composite (kids in listing order, count)"""
    __slots__ = ("comp", "sig", "dur", "kids", "count", "src", "link", "d1", "real", "orig", "path")

    def __init__(self):
        self.comp = False
        self.sig = None
        self.dur = 0.0
        self.kids = []
        self.count = 1
        self.src = "F"
        self.link = None     # None | ("S", type, A) | ("M", type, [A...])
        self.d1 = False      # first-level (hangs below the graph's root)
        self.real = None     # id of the real object this node was read from (None for copies)
        self.orig = None     # real object (kept alive) for original nodes
        self.path = ()


class UnknownStrategy(Exception):
    pass


def declared_count(comp, built):
    """the count the build program declared for this composite (independent of the strategy classes' methods)"""
    s = comp.repetition_strategy
    if id(s) in built.counts:
        return built.counts[id(s)][0], built.counts[id(s)][1]
    n = type(s).__name__
    if n == "FixedRepetitionStrategy":          # composites the builder did not create (library constructors): read the field
        return int(s.repetitions), "F"
    if n == "RegistryRepetitionStrategy":       # an equal strategy object that is not the builder's: the key names the program item
        for reps, src, path in built.counts.values():
            if src == "R" and path == s.registry_key:
                return reps, "R"
    if n == "DynamicRepetitionStrategy":
        return int(s.repetitions_call()), "D"
    raise UnknownStrategy(n)


def abstract_tree(root, built, T):
    """1:1 abstract image of the real structure as it is BEFORE apply_modifiers (own walk, link fields)"""
    amap = {}

    def rec(comp, path):
        a = A()
        a.comp, a.real, a.orig, a.path = True, id(comp), comp, path
        a.count, a.src = declared_count(comp, built)
        amap[id(comp)] = a
        d1, _, nodes = composite_nodes(comp)
        d1ids = {id(n.operation) for n in d1}
        for i, n in enumerate(nodes):
            op = n.operation
            if is_composite(op):
                k = rec(op, path + (i,))
            else:
                k = A()
                k.sig, k.dur, k.real, k.orig, k.path = sig_of(op), leaf_duration(op, T), id(op), op, path + (i,)
                amap[id(op)] = k
            k.d1 = id(op) in d1ids
            a.kids.append(k)
        return a
    aroot = rec(root, ())
    external = []
    for a in list(amap.values()):
        link = a.orig.relation
        t = link._relation_type.name
        if type(link).__name__ == "MultiRelationLink":
            refs = []
            for r in link._reference_nodes:
                if id(r) in amap:
                    refs.append(amap[id(r)])
                else:
                    external.append(type(r).__name__)
            a.link = ("M", t, refs)
        elif link._reference_node is None:
            a.link = None
        elif id(link._reference_node) in amap:
            a.link = ("S", t, amap[id(link._reference_node)])
        else:
            external.append(type(link._reference_node).__name__)
            a.link = None
    return aroot, amap, external


def a_has_rel(x):
    if x.link is None:
        return False
    if x.link[0] == "M":
        return bool(x.link[2])
    return x.link[2] is not None


class AbsEvaluator:
    """relation equations over the abstract circuit.  Composite duration: earliest start to latest end over all children."""

    def __init__(self):
        self._s, self._d = {}, {}

    def dur(self, x):
        k = id(x)
        if k in self._d:
            return self._d[k]
        if x.comp:
            v = 0.0
            if x.kids:
                rel = min(self.start(c) for c in x.kids)
                for c in x.kids:
                    delta = self.end(c) - rel
                    if delta > v:
                        v = delta
        else:
            v = x.dur
        self._d[k] = v
        return v

    def ref(self, x):
        link = x.link
        if link is None:
            return None
        if link[0] == "M":
            refs = link[2]
            if not refs:
                return None
            latest = refs[0]
            for r in refs:
                if self.end(r) > self.end(latest):
                    latest = r
            return latest
        return link[2]

    def start(self, x):
        k = id(x)
        if k in self._s:
            return self._s[k]
        ref = self.ref(x)
        if ref is None:
            v = 0.0
        else:
            t = x.link[1]
            if t == "FOLLOWED_BY":
                v = self.end(ref)
            elif t == "JOINED_START":
                v = self.start(ref)
            elif t == "JOINED_END":
                v = self.end(ref) - self.dur(x)
            else:
                raise TypeError(t)
        self._s[k] = v
        return v

    def end(self, x):
        return self.start(x) + self.dur(x)


def a_leaves(c, ev):
    """relation leaves of a composite: children that no other child refers to through its relation
    (a multi-link refers to its latest-ending member)"""
    kid_ids = {id(k) for k in c.kids}
    referred = set()
    for k in c.kids:
        r = ev.ref(k)
        if r is not None and id(r) in kid_ids:
            referred.add(id(r))
    return [k for k in c.kids if id(k) not in referred]


def a_copy(content):
    """faithful copies of a content list; relations inside the content are carried over, relations to anything
    outside are dropped (the copy is chained instead)"""
    lookup = {}

    def clone(x):
        y = A()
        y.comp, y.sig, y.dur, y.count, y.src, y.d1, y.path = x.comp, x.sig, x.dur, x.count, x.src, x.d1, x.path
        lookup[id(x)] = y
        y.kids = [clone(k) for k in x.kids]
        return y

    def relink(x):
        y = lookup[id(x)]
        if x.link is None:
            y.link = None
        elif x.link[0] == "M":
            y.link = ("M", x.link[1], [lookup[id(r)] for r in x.link[2] if id(r) in lookup])
        else:
            r = x.link[2]
            y.link = ("S", x.link[1], lookup[id(r)]) if (r is not None and id(r) in lookup) else None
        for k in x.kids:
            relink(k)
    out = [clone(x) for x in content]
    for x in content:
        relink(x)
    return out


def a_handdown(c):
    """what reading `circuit.operations` does: relation-less children take over the composite's link"""
    for k in c.kids:
        if not a_has_rel(k):
            k.link = c.link
        if k.comp:
            a_handdown(k)


def a_unroll(c, blocks):
    """the property statement: a composite with count n becomes n copies of its content chained one after another;
    copy k starts (FOLLOWED_BY) at the latest-ending relation leaf of what precedes it; counts become 1; nested
    composites are unrolled the same way.  Children are processed in listing order, so everything a child refers
    to is final when the child is processed."""
    for k in list(c.kids):
        if k.comp:
            a_unroll(k, blocks)
    n = c.count
    content = list(c.kids)
    info = None
    if c.real is not None:
        ev = AbsEvaluator()
        ends = [ev.end(k) for k in content]
        lv = a_leaves(c, ev)
        first = min([ev.start(k) for k in content if k.d1], default=0.0)
        info = {"node": c, "n": n, "src": c.src, "size": len(content),
                # T of ONE copy: from the start of its first-level operations (where a copy "begins") to its latest end
                "T": (max(ends) - first) if content else 0.0,
                "span": ev.dur(c),     # earliest start .. latest end (differs from T iff something starts before the first-level operations)
                "last_is_leaf": bool(content) and max(ends) <= max(ev.end(k) for k in lv),
                "leaf_ends": len({rnd(ev.end(k)) for k in lv}),   # >= 2: 'latest-ending' is discriminating for this block
                "first_start": first}
        blocks.append(info)
    for _ in range(1, n):
        ev = AbsEvaluator()
        leaves = a_leaves(c, ev)
        new = a_copy(content)
        for x in new:
            if not a_has_rel(x):
                x.link = ("M", "FOLLOWED_BY", leaves) if leaves else None
                x.d1 = not leaves
            else:
                x.d1 = False
        c.kids.extend(new)
    c.count = 1


def a_leaf_ops(c):
    out = []
    for k in c.kids:
        if k.comp:
            out.extend(a_leaf_ops(k))
        else:
            out.append(k)
    return out


def rnd(v):
    return round(float(v), ND) + 0.0


# ------------------------------------------------------------------------------------------------
# Program statistics, closed forms from the JSON
# ------------------------------------------------------------------------------------------------
def program_counts(program):
    """closed form: (kind, qubits) -> occurrences x product of the enclosing counts, from the JSON alone"""
    out = Counter()

    def rec(items, mult):
        for it in items:
            if it["k"] == "sub":
                rec(it["items"], mult * int(it.get("reps", 1)))
            else:
                out[(it["k"], tuple(it["q"]))] += mult
    root = program.get("root") or {}
    rec(program["items"], int(root.get("reps", 1)))
    return out


def program_stats(program):
    st = {"ops": 0, "rel": 0, "sub": 0, "rep": 0, "depth": 0, "nested_rep": 0, "srcs": set(), "root_rep": 0, "max_mult": 1,
          "kinds": set()}
    if "lib" in program:
        st.update(ops=10, rel=1, sub=1, rep=1 if int(program["cycles"]) > 1 else 0, depth=1)
        return st
    root = program.get("root") or {}
    if int(root.get("reps", 1)) > 1:
        st["rep"] += 1
        st["root_rep"] = 1
        st["srcs"].add(root.get("src", "F"))

    def rec(items, depth, mult, enclosing_rep):
        st["depth"] = max(st["depth"], depth)
        for it in items:
            if it.get("rel"):
                st["rel"] += 1
            if it["k"] == "sub":
                st["sub"] += 1
                n = int(it.get("reps", 1))
                if n > 1:
                    st["rep"] += 1
                    st["srcs"].add(it.get("src", "F"))
                    if enclosing_rep:
                        st["nested_rep"] += 1
                rec(it["items"], depth + 1, mult * n, enclosing_rep or n > 1)
            else:
                st["ops"] += 1
                st["kinds"].add(it["k"])
                st["max_mult"] = max(st["max_mult"], mult)
    rec(program["items"], 0, int(root.get("reps", 1)), int(root.get("reps", 1)) > 1)
    return st


def shape_class(program):
    st = program_stats(program)
    if "lib" in program:
        return "library"
    srcs = "+".join(sorted(SRC_NAME[s] for s in st["srcs"])) or "none"
    shape = "nested" if st["nested_rep"] else ("root" if st["root_rep"] else "single-level")
    return f"{srcs}-count:{shape}"


def nontrivial(program):
    st = program_stats(program)
    return st["rep"] >= 1 and st["ops"] >= 1


# ------------------------------------------------------------------------------------------------
# One case = one program: build, read input, unroll, judge every clause
# ------------------------------------------------------------------------------------------------
CLAUSES = ["multiplicity", "copies", "timing", "reported", "nT", "reset", "untouched", "idempotent", "listing", "succeeds"]


class Stats:
    def __init__(self):
        self.n = {c: 0 for c in CLAUSES}
        self.cases = 0
        self.failures = {}
        self.skipped = {}
        self.hashes = set()
        self.samples = []
        self.probe = {"stale_before_clear": 0, "stale_checked": 0, "external_refs": 0, "blocks": 0, "blocks_nT": 0, "blocks_early_start": 0, "blocks_2_leaf_ends": 0, "blocks_3_leaf_ends": 0,
                      "interleaved_listings": 0, "handdown_relinks": 0, "max_ops": 0}

    def fail(self, key, clause, function, witness, observed, required):
        size = len(json.dumps(witness, default=str))
        old = self.failures.get(key)
        if old is None or size < old["_size"]:
            self.failures[key] = {"key": key, "clause": clause, "function": function, "witness": witness,
                                  "observed": observed, "required": required, "replay_args": dict(witness, key=key),
                                  "_size": size}

    def skip(self, reason):
        self.skipped[reason] = self.skipped.get(reason, 0) + 1

    def merge(self, o):
        for c in CLAUSES:
            self.n[c] += o.n[c]
        self.cases += o.cases
        for k, f in o.failures.items():
            old = self.failures.get(k)
            if old is None or (f["_size"], json.dumps(f["witness"], sort_keys=True, default=str)) < \
                    (old["_size"], json.dumps(old["witness"], sort_keys=True, default=str)):
                self.failures[k] = f
        for k, v in o.skipped.items():
            self.skipped[k] = self.skipped.get(k, 0) + v
        self.hashes |= o.hashes
        if len(self.samples) < 12:
            self.samples.extend(o.samples)
        for k, v in o.probe.items():
            if k == "max_ops":
                self.probe[k] = max(self.probe[k], v)
            else:
                self.probe[k] += v


def exc_where(err):
    tb = traceback.extract_tb(err.__traceback__)
    for fr in reversed(tb):
        if "qce_circuit" in fr.filename:
            return f"{type(err).__name__}-in-{fr.name}"
    return type(err).__name__


def counter_diff(exp, got, limit=4):
    miss = list((exp - got).items())[:limit]
    extra = list((got - exp).items())[:limit]
    return {"missing": [[list(map(str, k)) if isinstance(k, tuple) else k, v] for k, v in miss],
            "unexpected": [[list(map(str, k)) if isinstance(k, tuple) else k, v] for k, v in extra]}


def deviating_kinds(exp_ops, act):
    """kinds of the operations whose (signature, start, end) is not expected, earliest first: goes into the witness record,
    never into the key"""
    bad = sorted((Counter(act) - Counter(exp_ops)).elements(), key=lambda t: (t[1], t[2], str(t[0])))
    out = []
    for t in bad:
        if t[0][0] not in out:
            out.append(t[0][0])
    return out


def base_timing_class(traits):
    """class of a timing failure by its CAUSE, as far as the input (read before unrolling) shows one"""
    if "copied-value-equal-operations" in traits:
        return "copied-value-equal-operations"
    if "copied-barrier-with-non-default-relation" in traits:
        return "copied-barrier-with-non-default-relation"
    return "other"


# key strings that are recorded findings must stay as they are
RECORDED_PRE_READ_VALUE_EQUAL = "copied-value-equal-siblings:after-reading-operations"


def timing_class(program, traits, pre_read):
    """the class of a timing failure depends on its cause, never on which operation kind happens to deviate:
    * the program fails ONLY when circuit.operations is read before unrolling (the same program without that read
      satisfies the rule; decided by really running it): cause = the hand-down of one link object by that read;
      sub-cause from the input: operations that compare equal (the recorded key), a copied barrier, other;
    * the program fails without the pre-read as well: the class of that run (value-equal operations / copied barrier /
      other)."""
    if not pre_read:
        return base_timing_class(traits)
    twin = json.loads(json.dumps(program))
    twin.pop("pre_read", None)
    sub = Stats()
    check_program(twin, sub)
    again = sorted(k for k in sub.failures if k.startswith(f"{PROP}:repeat:timing:"))
    if again:
        return again[0][len(f"{PROP}:repeat:timing:"):]
    if "copied-value-equal-operations" in traits:
        return RECORDED_PRE_READ_VALUE_EQUAL
    if "copied-barrier-with-non-default-relation" in traits:
        return "only-after-reading-operations:copied-barrier"
    return "only-after-reading-operations:other"


def _is_barrier_like(op):
    return any(c.__name__ == "Barrier" for c in type(op).__mro__)


def input_traits(root, declared):
    """traits of the real input (before unrolling) under which copies are known not to be copies; used ONLY to name the
    witness class of a failure, never to decide whether something is a failure.
    * copied-barrier-with-non-default-relation: a Barrier / CoordinateShiftOperation inside content that gets copied
      whose relation is not the default one (FOLLOWED_BY the last listed operation sharing a channel): its copy() drops the link;
    * copied-value-equal-operations: two distinct operations anywhere in copied content (siblings or different nesting
      levels: copy() shares ONE relation transfer table across the levels) that compare equal (==): that table is keyed by value."""
    traits = set()

    def rec(comp, copied):
        copied = copied or declared.get(id(comp), (1, "F"))[0] > 1
        nodes = [n.operation for n in composite_nodes(comp)[2]]
        if copied:
            ids = {id(o) for o in nodes}
            for i, o in enumerate(nodes):
                if _is_barrier_like(o):
                    link = o.relation
                    actual = None
                    if type(link).__name__ == "MultiRelationLink":
                        actual = ("multi",) if link._reference_nodes else None
                    elif link._reference_node is not None and id(link._reference_node) in ids:
                        actual = (id(link._reference_node), link._relation_type.name)
                    implicit = None
                    mine = o.channel_identifiers
                    for j in range(i - 1, -1, -1):
                        if any(a == b for a in mine for b in nodes[j].channel_identifiers):
                            implicit = (id(nodes[j]), "FOLLOWED_BY")
                            break
                    if actual != implicit:
                        traits.add("copied-barrier-with-non-default-relation")
            copied_ops.extend(nodes)
        for o in nodes:
            if is_composite(o):
                rec(o, copied)
    copied_ops = []
    rec(root, False)
    # value-equal operations: only operations that share one link OBJECT can compare equal (links carry a unique identifier)
    by_link = {}
    for o in copied_ops:
        by_link.setdefault(id(o.relation), []).append(o)
    for group in by_link.values():
        if len(group) > 1 and any(type(x) is type(y) and x == y for x, y in itertools.combinations(group, 2)):
            traits.add("copied-value-equal-operations")
            break
    return traits


def check_program(program, stats, verbose=False):
    """evaluates every clause of C06 on one real program; returns the number of failures recorded"""
    lib = L()
    say = (lambda *a: print(*a)) if verbose else (lambda *a: None)
    witness = {"program": program}
    gname = program.get("G", "file")
    pre_read = bool(program.get("pre_read"))
    is_lib = "lib" in program
    shape = shape_class(program)

    def fail(key, clause, function, observed, required):
        say("  FAIL", key, "\n     observed:", observed, "\n     required:", required)
        stats.fail(f"{PROP}:{key}", clause, function, witness, observed, required)
        fail.count += 1
    fail.count = 0

    with global_setting(gname):
        T = table_of(gname)
        common.clear_caches()
        try:
            built = build(program)
        except Exception as e:  # noqa
            stats.skip(f"program cannot be built: {exc_where(e)}")
            return 0
        circuit = built.circuit
        root = circuit.circuit_structure
        if pre_read:
            _ = circuit.operations     # a user looking at the listing first (hands links down)
        # ---- input of apply_modifiers, by the own walk ------------------------------------------------------------
        try:
            aroot, amap, external = abstract_tree(root, built, T)
        except UnknownStrategy as e:
            fail("copy:repetition-strategy-object-not-carried", "sub-circuits keep the repetition strategy they were built with",
                 "CircuitCompositeOperation.copy", str(e), "the strategy object handed to the constructor")
            return fail.count
        if external:
            stats.probe["external_refs"] += 1
            stats.skip("program refers to an operation outside the circuit")
            return 0
        W0 = walk_snapshot(root)
        pre_objs = {id(c.orig): c for c in amap.values()}
        # which originals are outside every repetition (all strictly enclosing counts are 1)
        outside = {}

        def mark(a, enclosed):
            outside[a.real] = not enclosed
            for k in a.kids:
                mark(k, enclosed or a.count > 1)
        mark(aroot, False)
        declared = {a.real: (a.count, a.src) for a in amap.values() if a.comp}
        traits = input_traits(root, declared)

        # ---- the oracle's unrolled circuit ---------------------------------------------------------------------------
        blocks = []
        a_handdown(aroot)
        a_unroll(aroot, blocks)
        a_handdown(aroot)
        aev = AbsEvaluator()
        exp_ops = [(x.sig, rnd(aev.start(x)), rnd(aev.end(x))) for x in a_leaf_ops(aroot)]
        stats.probe["max_ops"] = max(stats.probe["max_ops"], len(exp_ops))

        # ---- the real thing --------------------------------------------------------------------------------------------
        stats.n["succeeds"] += 1
        try:
            c1 = circuit.apply_modifiers()
        except Exception as e:  # noqa
            fail(f"apply_modifiers:raises:{exc_where(e)}", "apply_modifiers succeeds on every built circuit", "DeclarativeCircuit.apply_modifiers",
                 f"{type(e).__name__}: {str(e)[:200]}", "an unrolled circuit")
            return fail.count
        root1 = c1.circuit_structure
        W1 = walk_snapshot(root1)

        # ---- clause: every other operation untouched (same objects, same links), before anything is re-linked ---------
        stats.n["untouched"] += 1
        w0 = {cid: (nodes, d1, lv) for _, cid, nodes, d1, lv in W0}
        w1 = {cid: (nodes, d1, lv) for _, cid, nodes, d1, lv in W1}
        if id(root1) != id(root):
            fail("apply_modifiers:untouched:structure-replaced", "operations outside repeated sub-circuits are the same objects",
                 "DeclarativeCircuit.apply_modifiers", "the returned circuit has another structure object", "the same structure object")
        else:
            for cid, (nodes0, _, _) in w0.items():
                a = pre_objs[cid]
                if not (outside[cid] and declared[cid][0] == 1):
                    continue   # content of (or below) a repeated block: judged by the copies / timing clauses
                if cid not in w1:
                    fail("apply_modifiers:untouched:sub-circuit-lost", "sub-circuits outside repeated blocks stay in the circuit",
                         "apply_modifiers_to_self", f"composite at {a.path} is not in the circuit any more", "still there")
                    continue
                nodes1 = w1[cid][0]
                if [t[0] for t in nodes0] != [t[0] for t in nodes1]:
                    fail("apply_modifiers:untouched:listing-of-unrepeated-composite-changed",
                         "a composite with count 1 outside repeated blocks lists the same objects in the same order",
                         "apply_modifiers_to_self / repeat", {"path": a.path, "before": len(nodes0), "after": len(nodes1)}, "identical listing")
                    continue
                for t0, t1 in zip(nodes0, nodes1):
                    if t0[1] != t1[1] or t0[2] != t1[2]:
                        fail("apply_modifiers:untouched:relation-link-changed", "operations outside repeated blocks keep their relation link",
                             "apply_modifiers_to_self", {"before": t0[2], "after": t1[2]}, "the same link object")
                        break
                    if t0[3] != t1[3] or t0[4] != t1[4]:
                        fail("apply_modifiers:untouched:fields-changed", "operations outside repeated blocks keep kind, qubits, duration rule",
                             "apply_modifiers_to_self", {"before": t0[4], "after": t1[4]}, "unchanged")
                        break

        # ---- clause: all repetition counts are 1 afterwards -----------------------------------------------------------------
        comps1 = all_composites(root1)
        stats.n["reset"] += len(comps1)
        for c in comps1:
            n_now = c.nr_of_repetitions
            if n_now != 1:
                src = declared.get(id(c), (None, "copy"))[1]
                fail(f"apply_modifiers_to_self:reset:count-not-1:{SRC_NAME.get(src, src)}", "all repetition counts are 1 after applying the modifiers",
                     "apply_modifiers_to_self", n_now, 1)
                break
        if built.registry is not None and built.registry_keys:
            # a count that is 1 only as long as the registry says so is not reset
            saved = dict(built.registry._variable_repetitions)
            for key, _ in built.registry_keys:
                built.registry.set_registry_at(key, 3)
            stats.n["reset"] += 1
            still = [c.nr_of_repetitions for c in comps1]
            for key, v in saved.items():
                built.registry.set_registry_at(key, v)
            if any(v != 1 for v in still):
                fail("apply_modifiers_to_self:reset:count-still-bound-to-registry", "counts are reset to 1 (and stay 1 whatever the registry says later)",
                     "apply_modifiers_to_self", still, 1)

        # ---- read the unrolled circuit through the public listing (this hands links down), fresh memos ------------------------
        links_before = [(id(o), id(o.relation)) for o in leaf_ops(root1)]
        ops1 = list(c1.operations)
        if links_before != [(id(o), id(o.relation)) for o in leaf_ops(root1)]:
            stats.probe["handdown_relinks"] += 1
        reported_raw = None
        if is_lib or (stats.cases % 8 == 0):
            try:
                reported_raw = [(o.start_time, o.duration) for o in ops1]     # whatever the memos hold (C03's business): probe only
            except Exception:  # noqa
                reported_raw = None
        common.clear_caches()
        walked = leaf_ops(root1)
        if sorted(map(id, walked)) != sorted(map(id, ops1)):
            fail("decomposed_operations:listing-differs-from-walk", "the public listing lists exactly the leaf operations of the structure",
                 "decomposed_operations", len(ops1), len(walked))

        # ---- clause: multiplicity (closed form from the program) ----------------------------------------------------------------
        stats.n["multiplicity"] += 1
        act_kq = Counter((type(o).__name__, tuple(op_qubits(o))) for o in ops1)
        mult_ok = True
        if not is_lib:
            want = program_counts(program)
            if act_kq != want:
                mult_ok = False
                fail(f"apply_modifiers:multiplicity:{shape}", "each kind of operation occurs content x product-of-enclosing-counts times",
                     "apply_modifiers_to_self / repeat / get_repetition_number", counter_diff(want, act_kq), "counts from the build program")
        exp_kq = Counter((s[0], s[1]) for s, _, _ in exp_ops)
        if mult_ok and act_kq != exp_kq:
            mult_ok = False
            fail(f"apply_modifiers:multiplicity:{shape}", "each kind of operation occurs content x product-of-enclosing-counts times",
                 "apply_modifiers_to_self / repeat", counter_diff(exp_kq, act_kq), "counts from the own unroller")

        # ---- clause: the copies are copies (kind, qubits, duration rule, channels) --------------------------------------------------
        stats.n["copies"] += 1
        act_sig = Counter(sig_of(o) for o in ops1)
        exp_sig = Counter(s for s, _, _ in exp_ops)
        sig_ok = mult_ok
        if mult_ok and act_sig != exp_sig:
            sig_ok = False
            d = counter_diff(exp_sig, act_sig)
            kind = sorted({k[0] for k in (act_sig - exp_sig)} | {k[0] for k in (exp_sig - act_sig)})[0]
            m = [k for k in (exp_sig - act_sig) if k[0] == kind]
            u = [k for k in (act_sig - exp_sig) if k[0] == kind]
            fields = ["count"]
            if m and u:   # the closest pair (fewest differing fields) names what the copy lost
                fields = min(([name for name, x, y in (("qubits", a[1], b[1]), ("duration-rule", a[2], b[2]), ("channels", a[3], b[3])) if x != y]
                              for a in m for b in u), key=len) or ["count"]
            fail(f"repeat:copy-not-faithful:{kind}:{'+'.join(fields)}", "a repeated sub-circuit is replaced by n COPIES of its content (same kind, qubits, duration rule, channels)",
                 "repeat / copy", d, "n times the content")

        # ---- clause: timing of the copies (own evaluator over the real link fields vs the oracle's circuit) ---------------------------
        rev = RealEvaluator(T)
        act = None
        rep1 = None
        if sig_ok:
            stats.n["timing"] += 1
            act = [(sig_of(o), rnd(rev.start(o)), rnd(rev.end(o))) for o in ops1]
            if Counter(act) != Counter(exp_ops):
                cls, kinds = timing_class(program, traits, pre_read), deviating_kinds(exp_ops, act)
                try:
                    rep_ok = Counter((sig_of(o), rnd(o.start_time), rnd(o.start_time + o.duration)) for o in ops1) == Counter(exp_ops)
                except Exception:  # noqa
                    rep_ok = None
                kinds = {"kinds": kinds, "schedule_reported_by_the_library_satisfies_the_rule": rep_ok}
                fail(f"repeat:timing:{cls}", "each copy begins when the latest-ending relation leaf of what precedes it has ended; "
                     "inside a copy the relations of the content hold", "repeat / extend / copy",
                     dict(counter_diff(Counter(exp_ops), Counter(act)), deviating_kinds=kinds), "the schedule of the own unroller")
            else:
                # ---- the times the library reports (fresh memos) ------------------------------------------------------------------------
                stats.n["reported"] += 1
                rep = rep1 = [(rnd(o.start_time), rnd(o.start_time + o.duration)) for o in ops1]
                if rep != [(a, b) for _, a, b in act]:
                    i = next(i for i, (x, y) in enumerate(zip(rep, act)) if x != (y[1], y[2]))
                    fail("start_time:reported-schedule-differs-from-relation-equations",
                         "the schedule reported by the unrolled circuit (fresh memos) is the solution of the relation equations",
                         "start_time / get_start_time", {"operation": i, "kind": act[i][0][0], "reported": rep[i]}, list(act[i][1:]))
                if reported_raw is not None:
                    stats.probe["stale_checked"] += 1
                    if [(rnd(s), rnd(s + d)) for s, d in reported_raw] != rep:
                        stats.probe["stale_before_clear"] += 1

        if verbose and act is not None:
            say(f"  unrolled listing: {len(ops1)} operations; input traits: {sorted(traits)}; blocks: " +
                str([(b['node'].path, 'n=%d' % b['n'], 'T=%g' % b['T'], 'last-ending-is-leaf' if b['last_is_leaf'] else 'last-ending-is-NOT-a-leaf') for b in blocks]))
            say("  schedule (kind, qubits, start, end) from the real link fields, sorted:")
            for s_, a_, e_ in sorted(act, key=lambda t: (t[1], t[2], str(t[0])))[:40]:
                say(f"     {s_[0]}{list(s_[1])}  {a_} .. {e_}")
            say("  schedule required by the own unroller, sorted:")
            for s_, a_, e_ in sorted(exp_ops, key=lambda t: (t[1], t[2], str(t[0])))[:40]:
                say(f"     {s_[0]}{list(s_[1])}  {a_} .. {e_}")

        # ---- clause: n*T -------------------------------------------------------------------------------------------------------------------
        if act is not None and Counter(act) == Counter(exp_ops):
            for b in blocks:
                stats.probe["blocks"] += 1
                if b["n"] >= 2 and b["leaf_ends"] >= 2:
                    stats.probe["blocks_2_leaf_ends"] += 1
                if b["n"] >= 2 and b["leaf_ends"] >= 3:
                    stats.probe["blocks_3_leaf_ends"] += 1
                if b["n"] < 2 or not b["last_is_leaf"] or b["size"] == 0:
                    continue
                comp = b["node"].orig
                d1, _, nodes = composite_nodes(comp)
                if not d1:
                    continue
                stats.n["nT"] += 1
                stats.probe["blocks_nT"] += 1
                if rnd(b["span"]) != rnd(b["T"]):
                    stats.probe["blocks_early_start"] += 1
                first = min(rev.start(n.operation) for n in d1)
                last = max(rev.end(n.operation) for n in nodes)
                if rnd(last - first) != rnd(b["n"] * b["T"]):
                    fail(f"repeat:nT:{SRC_NAME[b['src']]}-count", "a block of duration T whose last-ending operation is a relation leaf occupies n*T",
                         "repeat / extend", {"occupies": last - first, "n": b["n"], "T": b["T"], "block": b["node"].path}, b["n"] * b["T"])
                    break

        # ---- clause: library-built circuits: the unrolled listing is the n-fold concatenation ----------------------------------------------
        if is_lib:
            stats.n["listing"] += 1
            twin = build(program).circuit
            want_listing = expand_listing(twin.circuit_structure)
            got_listing = [(type(o).__name__, tuple(op_qubits(o))) for o in ops1]
            if got_listing != want_listing:
                i = next((i for i, (x, y) in enumerate(zip(got_listing, want_listing)) if x != y), min(len(got_listing), len(want_listing)))
                displaced = want_listing[i][0] if i < len(want_listing) else "none"
                fail(f"repeat:library-listing:{program['lib']}:{displaced}-listed-after-the-next-copy" if sorted(got_listing) == sorted(want_listing) else
                     f"repeat:library-listing:{program['lib']}:other-operations", "for library-built circuits the unrolled listing is the n-fold "
                     "concatenation of the block's listing", "repeat / extend / get_node_iterator",
                     {"index": i, "got": got_listing[i:i + 3], "lengths": [len(got_listing), len(want_listing)]}, want_listing[i:i + 3])
        elif act is not None:
            # not claimed for arbitrary programs; counted to show the claim is not vacuous there
            if [(s[0], s[1]) for s, _, _ in act] != expand_listing_program(program):
                stats.probe["interleaved_listings"] += 1

        # ---- clause: idempotence ------------------------------------------------------------------------------------------------------------
        stats.n["idempotent"] += 1
        S1 = walk_snapshot(root1)
        listing1 = [id(o) for o in ops1]
        times1 = [(rnd(rev.start(o)), rnd(rev.end(o))) for o in ops1]
        try:
            c2 = c1.apply_modifiers()
        except Exception as e:  # noqa
            fail(f"apply_modifiers:idempotence:raises:{exc_where(e)}", "applying the modifiers again changes nothing", "DeclarativeCircuit.apply_modifiers",
                 f"{type(e).__name__}: {str(e)[:200]}", "no change")
            return fail.count
        S2 = walk_snapshot(c2.circuit_structure)
        if S1 != S2:
            what = "listing" if [(p, c, tuple(t[0] for t in n)) for p, c, n, _, _ in S1] != [(p, c, tuple(t[0] for t in n)) for p, c, n, _, _ in S2] else "links"
            fail(f"apply_modifiers:idempotence:{what}-changed", "applying the modifiers again changes nothing (same objects, order, links)",
                 "apply_modifiers_to_self / repeat", {"composites": [len(S1), len(S2)], "operations": [sum(len(n) for _, _, n, _, _ in S1), sum(len(n) for _, _, n, _, _ in S2)]},
                 "identical structure")
        else:
            ops2 = list(c2.operations)
            common.clear_caches()
            rev2 = RealEvaluator(T)
            if [id(o) for o in ops2] != listing1:
                fail("apply_modifiers:idempotence:public-listing-changed", "applying the modifiers again changes nothing (public listing)",
                     "apply_modifiers_to_self", len(ops2), len(listing1))
            elif [(rnd(rev2.start(o)), rnd(rev2.end(o))) for o in ops2] != times1:
                fail("apply_modifiers:idempotence:times-changed", "applying the modifiers again changes nothing (schedule)",
                     "apply_modifiers_to_self", "schedule differs", "identical schedule")
            elif rep1 is not None and [(rnd(o.start_time), rnd(o.start_time + o.duration)) for o in ops2] != rep1:
                fail("apply_modifiers:idempotence:reported-times-changed", "applying the modifiers again changes nothing (reported schedule, fresh memos)",
                     "apply_modifiers_to_self", "reported schedule differs", "identical schedule")
            if any(c.nr_of_repetitions != 1 for c in all_composites(c2.circuit_structure)):
                fail("apply_modifiers:idempotence:counts-not-1", "counts stay 1", "apply_modifiers_to_self", "a count differs from 1", 1)

        if len(stats.samples) < 2 and fail.count == 0 and len(ops1) >= 4 and any(b["n"] > 1 and b["size"] > 0 for b in blocks):
            stats.samples.append({"program": program, "checked": {
                "operations_after_unrolling": len(ops1), "kind_counts": {f"{k[0]}{list(k[1])}": v for k, v in list(act_kq.items())[:6]},
                "blocks": [{"n": b["n"], "T": b["T"], "last_ending_is_leaf": b["last_is_leaf"]} for b in blocks if b["n"] > 1][:4],
                "first_operations": [{"kind": s[0], "start": a, "end": e} for s, a, e in (act or [])[:6]]}})
        common.clear_caches()
    stats.cases += 1
    return fail.count


def expand_listing(comp):
    """the n-fold concatenation, from the library's OWN listing order of the not-unrolled twin (that order is what the
    clause is about); counts from the strategy fields"""
    out = []
    for node in comp._circuit_graph.get_node_iterator():
        op = node.operation
        if is_composite(op):
            n = int(op.repetition_strategy.repetitions)
            out.extend(expand_listing(op) * n)
        else:
            out.append((type(op).__name__, tuple(op_qubits(op))))
    return out


def expand_listing_program(program):
    def rec(items):
        out = []
        for it in items:
            if it["k"] == "sub":
                out.extend(rec(it["items"]) * int(it.get("reps", 1)))
            else:
                out.append((it["k"], tuple(it["q"])))
        return out
    root = program.get("root") or {}
    return rec(program["items"]) * int(root.get("reps", 1))


# ------------------------------------------------------------------------------------------------
# Enumeration of inputs
# ------------------------------------------------------------------------------------------------
def op(k, q, rel=None, **kw):
    it = {"k": k, "q": list(q) if isinstance(q, (list, tuple)) else [q]}
    if rel is not None:
        it["rel"] = list(rel)
    it.update(kw)
    return it


def sub(items, reps=1, rel=None, src="F"):
    it = {"k": "sub", "reps": reps, "src": src, "items": items}
    if rel is not None:
        it["rel"] = list(rel)
    return it


def with_rel(it, rel):
    it = json.loads(json.dumps(it))
    if rel is not None:
        it["rel"] = list(rel)
    return it


# reduced alphabet of the exhaustive families (qubits 0..2)
ALPHA_FULL = [
    op("Wait", 0, d=0.0), op("Wait", 0, d=2.0, ch="MW"), op("Wait", 0, d=5.0, ch="FL"), op("Wait", 1, d=1.0),
    op("Wait", 2, d=5.0), op("Rx180", 0), op("Rx180", 1), op("CPhase", [0, 1]), op("DispersiveMeasure", 1), op("Barrier", [0, 1]),
    op("CPhase", [1, 2]), op("Barrier", [0, 1, 2]),
]
ALPHA_SMALL = [op("Wait", 0, d=0.0), op("Wait", 0, d=5.0, ch="FL"), op("Wait", 1, d=2.0), op("Rx180", 0), op("CPhase", [0, 1]),
               op("Barrier", [0, 1]), op("DispersiveMeasure", 1)]
ALPHA_TINY = [op("Wait", 0, d=5.0), op("Wait", 1, d=1.0, ch="MW"), op("Rx180", 0), op("CPhase", [0, 1]), op("Barrier", [0, 1])]
RELS = {0: [None], 1: [None] + [[0, t] for t in "FSE"], 2: [None] + [[i, t] for i in (0, 1) for t in "FSE"]}


def contents(alpha, size):
    """all item sequences of exactly `size` items over `alpha`, every relation type to every earlier item"""
    for atoms in itertools.product(alpha, repeat=size):
        for rels in itertools.product(*[RELS[i] for i in range(size)]):
            yield [with_rel(a, r) for a, r in zip(atoms, rels)]


def decorate(progs, seed, salt):
    """seeded rotation of: global duration setting, source of every count (Fixed / Registry / Dynamic), reading the
    listing before unrolling (1 in 4)"""
    rng = random.Random(f"{seed}-{salt}")

    def rec(items):
        for it in items:
            if it["k"] == "sub":
                it["src"] = rng.choice("FRD")
                rec(it["items"])
    for prog in progs:
        prog["G"] = rng.choice(["file", "A", "B"])
        if rng.random() < 0.25:
            prog["pre_read"] = True
        rec(prog["items"])
        if prog.get("root"):
            prog["root"]["src"] = rng.choice("FRD")
    return progs


def family_single(tier):
    """E1: one repeated block with content of <= 3 items, in three contexts, counts 1..3"""
    thorough = tier == "thorough"
    cs = []
    for size, alpha in ((1, ALPHA_FULL), (2, ALPHA_FULL if thorough else ALPHA_SMALL), (3, ALPHA_SMALL if thorough else ALPHA_TINY[:4])):
        cs.extend(contents(alpha, size))
    progs = []
    for c in cs:
        for n in (1, 2, 3):
            if n == 1 and len(c) == 3:
                continue
            progs.append({"items": json.loads(json.dumps(c)), "root": {"reps": n, "src": "F"}})                     # the root circuit itself repeats
            progs.append({"items": [sub(json.loads(json.dumps(c)), n)]})                                                # bare sub-circuit
            progs.append({"items": [op("Rx180", 0), sub(json.loads(json.dumps(c)), n), op("DispersiveMeasure", 0, rel=[1, "F"]),
                                    op("Wait", 1, d=2.0)]})                                                                # operations before / after / referring to it
    return progs


def family_nested(tier):
    """E2: nesting depth 2: outer block (count n) holding an inner block (count m) and up to one more operation"""
    thorough = tier == "thorough"
    inner_alpha = ALPHA_SMALL if thorough else ALPHA_TINY[:4]
    inners = list(contents(inner_alpha, 1)) + list(contents(inner_alpha, 2))
    outer_atoms = [op("Wait", 0, d=2.0), op("Wait", 2, d=5.0), op("Rx180", 1), op("CPhase", [1, 2]), op("Barrier", [0, 1, 2])]
    if not thorough:
        outer_atoms = [outer_atoms[0], outer_atoms[3]]
    progs = []
    pairs = [(n, m) for n in (1, 2, 3) for m in (1, 2, 3) if not (n == 1 and m == 1)]
    for inner in inners:
        for n, m in pairs:
            shapes = [[sub(json.loads(json.dumps(inner)), m)]]
            for a in outer_atoms:
                for r in RELS[1]:
                    shapes.append([dict(a), sub(json.loads(json.dumps(inner)), m, rel=r)])
                    shapes.append([sub(json.loads(json.dumps(inner)), m), with_rel(a, r)])
            for sh in shapes:
                progs.append({"items": [sub(sh, n)]})
    # depth 2 with the root repeating and an operation after the outer block
    for inner in inners[::3]:
        for n, m in ((2, 2), (3, 2), (2, 3)):
            progs.append({"items": [sub(json.loads(json.dumps(inner)), m), op("Rx180", 2)], "root": {"reps": n, "src": "F"}})
            progs.append({"items": [op("Rx180", 0), sub([sub(json.loads(json.dumps(inner)), m), op("Wait", 1, d=1.0)], n),
                                    op("DispersiveMeasure", 0, rel=[1, "E"])]})
    return progs


def family_edge():
    a, b = 0, 1
    return [
        {"items": []},
        {"items": [], "root": {"reps": 3, "src": "F"}},
        {"items": [sub([], 3)]},
        {"items": [op("Rx180", a), sub([], 2), op("Ry90", a)]},
        {"items": [sub([sub([], 2)], 3), op("Ry90", b)]},
        {"items": [sub([op("Wait", a, d=0.0)], 4)]},
        {"items": [sub([op("Wait", a, d=0.0), op("Barrier", [a, b])], 4), op("Rx180", b)]},
        # last-ending operation is not a relation leaf: the copies overlap
        {"items": [sub([op("Wait", a, d=5.0), op("Wait", b, d=1.0, rel=[0, "S"])], 3)]},
        {"items": [sub([op("Wait", a, d=5.0), op("Rx180", b, rel=[0, "S"]), op("Wait", a, d=0.0, rel=[1, "S"])], 3), op("Rx180", a)]},
        # operations that start before the first-added ones
        {"items": [sub([op("Rx180", a), op("Wait", b, d=5.0, rel=[0, "E"])], 3)]},
        {"items": [op("Rx180", a), sub([op("Rx180", a), op("Wait", b, d=5.0, rel=[0, "E"]), op("Wait", b, d=1.0, rel=[1, "S"])], 3)]},
        # depth 3
        {"items": [sub([sub([sub([op("Rx180", a), op("CPhase", [a, b])], 2), op("Wait", b, d=2.0)], 2), op("DispersiveMeasure", a)], 2)]},
        {"items": [sub([op("Wait", b, d=1.0), sub([op("Rx90", a), sub([op("Wait", a, d=5.0, ch="FL"), op("Barrier", [a, b])], 3)], 2)], 2), op("Reset", b)],
         "root": {"reps": 2, "src": "F"}},
        # two repeated blocks side by side and one referring to the other
        {"items": [sub([op("Rx180", a)], 3), sub([op("Wait", b, d=5.0)], 2), op("CPhase", [a, b])]},
        {"items": [sub([op("Rx180", a)], 3), sub([op("Wait", b, d=5.0)], 2, rel=[0, "S"]), op("CPhase", [a, b], rel=[0, "F"])]},
        {"items": [sub([sub([op("Rx180", a)], 2), sub([op("Wait", b, d=5.0)], 2), op("Ry90", 2, rel=[0, "F"])], 2)]},
        {"items": [sub([sub([op("Rx180", a)], 2), sub([op("Wait", b, d=5.0)], 2), op("Ry90", 2, rel=[0, "F"])], 2)], "pre_read": True},
        {"items": [sub([op("Rx180", a)], 2), sub([op("Wait", b, d=5.0)], 2), op("Ry90", 2, rel=[0, "F"])], "root": {"reps": 2, "src": "F"}, "pre_read": True},
        # kinds whose copy is special
        {"items": [op("VirtualTwoQubitVacant", [a, b], d=2.0), op("Rx180", a)], "root": {"reps": 2, "src": "F"}},
        {"items": [op("Rx180", a), op("Barrier", [a, b], rel=[0, "S"]), op("Wait", b, d=2.0)], "root": {"reps": 2, "src": "F"}},
        {"items": [sub([op("Rx180", a), op("Barrier", [a, b], rel=[0, "S"]), op("Wait", b, d=2.0)], 2)]},
        {"items": [op("Rx180", a), op("Barrier", [a, b], rel=[0, "E"])], "root": {"reps": 2, "src": "F"}, "pre_read": True},
        {"items": [op("VirtualTwoQubitVacant", [a, b], d=0.0, ch="FL")], "root": {"reps": 2, "src": "F"}},
        {"items": [sub([op("VirtualTwoQubitVacant", [a, b], d=2.0, ch="FL"), op("Rx180", a)], 3)]},
    ]


def family_parallel():
    """P: repeated blocks whose content has >= 2 (and 3) PARALLEL relation leaves that end at different times, so that
    'the LATEST-ending leaf' is discriminating: fixed / registry / dynamic counts, single-level, nested, repeating root"""
    contents = [
        [op("Rx180", 0), op("Wait", 1, d=5.0)],                                                            # 2 leaves: 1 (or 3 / 0.5) vs 5
        [op("Wait", 1, d=5.0), op("Rx180", 0)],                                                            # the later-ending leaf listed first
        [op("Rx180", 0), op("Wait", 1, d=5.0), op("Wait", 2, d=2.0)],                                      # 3 leaves, the latest in the middle
        [op("Wait", 2, d=2.0), op("Rx180", 0), op("Wait", 1, d=5.0)],                                      # 3 leaves, the latest last
        [op("Wait", 1, d=5.0), op("Wait", 2, d=2.0), op("Wait", 0, d=0.0)],                                # 3 leaves, the latest first, a zero-length leaf
        [op("CPhase", [0, 1]), op("Rx180", 0), op("Wait", 1, d=5.0), op("Wait", 2, d=2.0)],               # common stem, then 2 leaves + a parallel third
        [op("Rx180", 0), op("Wait", 1, d=5.0), op("Wait", 2, d=7.0, rel=[0, "S"]), op("Wait", 0, d=1.0)],  # explicit JOINED_START branch is the latest
    ]
    progs = []
    for c in contents:
        for n in (2, 3, 4):
            for src in "FRD":
                cc = json.loads(json.dumps(c))
                progs.append({"items": [sub(cc, n, src=src)]})
                progs.append({"items": json.loads(json.dumps(c)), "root": {"reps": n, "src": src}})
                progs.append({"items": [op("Rx180", 1), sub(json.loads(json.dumps(c)), n, src=src), op("DispersiveMeasure", 0, rel=[1, "F"]), op("Wait", 2, d=1.0)]})
        # nested: the outer block has the inner block and one more parallel leaf of another length
        for n, m in ((2, 2), (3, 2), (2, 3)):
            for so, si in (("F", "F"), ("R", "R"), ("F", "R"), ("R", "D")):
                progs.append({"items": [sub([sub(json.loads(json.dumps(c)), m, src=si), op("Wait", 3, d=4.0)], n, src=so)]})
                progs.append({"items": [sub([op("Wait", 3, d=1.0), sub(json.loads(json.dumps(c)), m, src=si)], n, src=so), op("Rx180", 3)],
                              "root": {"reps": 2, "src": so}})
    out = []
    for i, p_ in enumerate(progs):
        p_["G"] = ("file", "A", "B")[i % 3]
        if i % 5 == 4:
            p_["pre_read"] = True
        out.append(p_)
    return out


def kind_instances(k, q1, q2, qall):
    if k in SQ_GLOBAL or k == "DispersiveMeasure":
        return [op(k, q1)]
    if k in SQ_FIXED:
        out = [op(k, q1, d=2.0), op(k, q1, d=0.0), op(k, q1, d=1.0)]
        if k != "SingleQubitOperation":
            out.append(op(k, q1, d=0.5, ch="MW"))
            out.append(op(k, q1, d=5.0, ch="FL"))
        return out
    if k in ("CPhase", "TwoQubitVirtualPhase"):
        return [op(k, [q1, q2]), op(k, [q2, q1])]
    if k in ("TwoQubitOperation", "VirtualTwoQubitVacant"):
        out = [op(k, [q1, q2], d=2.0), op(k, [q2, q1], d=0.0)]
        if k == "VirtualTwoQubitVacant":
            out.append(op(k, [q1, q2], d=0.0, ch="FL"))
        return out
    if k == "Barrier":
        return [op(k, qall), op(k, [q1])]
    raise ValueError(k)


def random_program(rng):
    pool = rng.choice([[0, 1, 2], [2, 7], [1, 4, 0, 6], [0, 1]])
    budget = [rng.randint(3, 14)]

    def items(depth, n):
        out = []
        for _ in range(n):
            rel = None
            if out and rng.random() < 0.45:
                rel = [rng.randrange(len(out)), rng.choice("FSE")]
            if depth < 3 and rng.random() < (0.35 if depth == 0 else 0.25) and budget[0] > 0:
                inner = items(depth + 1, rng.randint(1, 4 if depth < 2 else 2))
                out.append(sub(inner, rng.choice([1, 2, 2, 3, 3, 4]), rel, rng.choice("FFRD")))
                continue
            budget[0] -= 1
            k = rng.choice(ALL_KINDS)
            q1 = rng.choice(pool)
            q2 = rng.choice([q for q in pool if q != q1])
            inst = dict(rng.choice(kind_instances(k, q1, q2, rng.sample(pool, rng.randint(1, len(pool))))))
            if rel:
                inst["rel"] = rel
            out.append(inst)
        return out
    prog = {"items": items(0, rng.randint(1, 6)), "G": rng.choice(["file", "A", "B"])}
    if rng.random() < 0.2:
        prog["root"] = {"reps": rng.choice([2, 3, 4]), "src": rng.choice("FRD")}
    if rng.random() < 0.25:
        prog["pre_read"] = True
    return prog


def family_library(tier):
    thorough = tier == "thorough"
    progs = []
    for name in ("repcode_simplified", "repcode"):
        for states in (["01", "010", "0+1", "0101"] if thorough else ["01", "010"]):
            for cycles in (range(1, 9) if thorough else (1, 2, 3, 4, 5, 6)):
                for g in (("file", "A", "B") if thorough else ("file", "A")):
                    if not thorough and len(states) == 3 and cycles > 5:
                        continue
                    progs.append({"lib": name, "states": states, "cycles": cycles, "G": g})
    return progs


def make_jobs(tier, seed):
    thorough = tier == "thorough"
    rng = random.Random(seed * 7919 + (1 if thorough else 0))
    fam = [
        ("E1 single block (exhaustive)", decorate(family_single(tier), seed, "E1")),
        ("E2 nested blocks (exhaustive)", decorate(family_nested(tier), seed, "E2")),
        ("F edge", [dict(p, G=p.get("G", "file")) for p in family_edge()] + [dict(p, G="A") for p in family_edge()]),
        ("P parallel leaves of different length (>= 2 and 3 relation leaves per copy)", family_parallel()),
        ("L library", family_library(tier)),
        ("R random", [random_program(rng) for _ in range(60000 if thorough else 4000)]),
    ]
    summary = [f"{name}: {len(ps)} programs" for name, ps in fam]
    lists = []
    for name, ps in fam:
        ps = list(ps)
        if not name.startswith("L"):
            rng.shuffle(ps)
        lists.append(ps)
    chunks = []
    for ps in lists:
        size = 1 if (ps and "lib" in ps[0]) else 64
        for i in range(0, len(ps), size):
            chunks.append(ps[i:i + size])
    # hand-written edge programs first, then the library circuits (the slowest single items), the rest shuffled: a run
    # that is cut short by the time budget still covers every family proportionally
    edge = [ps for (name, _), ps in zip(fam, lists) if name.startswith("F") or name.startswith("P ")]
    edge_ids = {id(p) for ps in edge for p in ps}
    libs = [c for c in chunks if "lib" in c[0]]
    libs.sort(key=lambda c: -(int(c[0]["cycles"]) * len(c[0]["states"])))
    rest = [c for c in chunks if "lib" not in c[0] and id(c[0]) not in edge_ids]
    rng.shuffle(rest)
    edge_chunks = [ps[i:i + 8] for ps in edge for i in range(0, len(ps), 8)]
    return edge_chunks + libs + rest, summary, {name: len(ps) for name, ps in fam}


# ------------------------------------------------------------------------------------------------
# Jobs
# ------------------------------------------------------------------------------------------------
_DEADLINE = [None]


def run_job(programs):
    stats = Stats()
    L()
    for program in programs:
        if _DEADLINE[0] is not None and time.time() > _DEADLINE[0]:
            stats.skip("time budget of the tier exhausted")
            continue
        try:
            check_program(program, stats)
            if nontrivial(program):
                stats.hashes.add(hashlib.blake2b(json.dumps(program, sort_keys=True).encode(), digest_size=8).digest())
        except Exception as e:  # harness problem: make it visible, do not hide it
            stats.skip("harness error: " + "".join(traceback.format_exception_only(type(e), e)).strip()[:300] +
                       " @ " + traceback.format_tb(e.__traceback__)[-1].strip()[:200] + " program=" + json.dumps(program)[:300])
            common.clear_caches()
    return stats


def _init_worker(deadline):
    _DEADLINE[0] = deadline
    L()


def main(argv=None):
    args = common.parse_args(argv)
    if args.replay:
        return replay(args.replay)
    res = common.Result(PROP)
    budget = 540.0 if args.tier == "thorough" else 50.0
    deadline = time.time() + budget
    L()
    jobs, summary, sizes = make_jobs(args.tier, args.seed)
    total = Stats()
    nproc = min(16, os.cpu_count() or 1)
    ctx = mp.get_context("fork")
    with ctx.Pool(nproc, initializer=_init_worker, initargs=(deadline,)) as pool:
        for st in pool.imap_unordered(run_job, jobs, chunksize=1):
            total.merge(st)

    n = total.n
    res.evaluations = sum(n.values())
    res.distinct = total.hashes
    cut = any(k.startswith("time budget") for k in total.skipped)
    res.exhaustive = not cut
    res.rule = ("build programs (JSON: add-sequences of operations with relations none/FOLLOWED_BY/JOINED_START/JOINED_END to earlier items, sub-circuits with "
                "repetition counts from a Fixed / Registry (set after building) / Dynamic strategy, optionally a repeating root circuit, optionally reading "
                "circuit.operations before unrolling, global durations file/A/B via temporary_override_get_registry_at). Families: " + "; ".join(summary) +
                ". E1 = ALL contents of 1 item over 12 atoms, of 2 items over " + ("12" if args.tier == "thorough" else "7") + " atoms, of 3 items over " +
                ("7" if args.tier == "thorough" else "4") + " atoms (fixed Waits 0/1/2/5 on ALL/MICROWAVE/FLUX, Rx180, CPhase, measurement, barrier; qubits 0..2; every "
                "relation type to every earlier item) x counts 1..3 x {repeating root, bare sub-circuit, sub-circuit with operations before/after/referring to it}; "
                "E2 = ALL inner contents of <= 2 items over " + ("7" if args.tier == "thorough" else "4") + " atoms x outer shapes (inner block alone / one more operation (" +
                ("5" if args.tier == "thorough" else "2") + " atoms) before or after it, every relation between the two) x counts (n,m) in 1..3 without (1,1), plus repeating-root variants; "
                "P = hand-written contents with 2 and 3 parallel relation leaves of different length (Rx180 || Wait 5 || Wait 2 ...) x counts 2..4 x Fixed/Registry/Dynamic x "
                "{bare, repeating root, with context, nested in an outer block with a further parallel leaf}; the E families are enumerated completely ('exhaustive' is true iff no program was cut off by the time budget); R = seeded random programs, "
                "<= 6 top-level items, all 23 operation kinds, nesting <= 3, counts 1..4; L = repetition-code constructors (simplified and full) x distances x cycles. "
                "Non-trivial = at least one count > 1 and at least one operation; distinct = distinct programs.")
    res.samples = total.samples[:6]
    bound = f"{total.cases} programs, tier {args.tier}, seed {args.seed}"
    res.stand_ins = [
        {"function": "DeclarativeCircuit.apply_modifiers / apply_modifiers_to_self / repeat / IRepetitionStrategy.get_repetition_number / RepetitionRegistry",
         "contract": "clause 'nested counts multiply': multiset of (kind, qubits) of the public listing after unrolling = occurrences in the JSON program x product of the enclosing "
                     "counts of the program (closed form; counts never read through the strategy methods), and = the own unroller's multiset", "bound": bound, "evaluations": n["multiplicity"]},
        {"function": "repeat / copy", "contract": "clause 'n copies of its content': multiset of (kind, qubits, duration rule, channels) = own unroller's", "bound": bound, "evaluations": n["copies"]},
        {"function": "repeat / extend (MultiRelationLink to the latest leaf)",
         "contract": "clause 'each copy begins when the latest-ending relation leaf of what precedes it has ended' and 'chained one after another': multiset of (signature, start, end) "
                     "from the own evaluator over the REAL link fields = the same multiset of the own unroller's abstract circuit (built from the real input read before unrolling)",
         "bound": bound, "evaluations": n["timing"]},
        {"function": "start_time / duration of the unrolled circuit", "contract": "the schedule the library reports with fresh memos = the own evaluation of the relation equations", "bound": bound, "evaluations": n["reported"]},
        {"function": "repeat / extend", "contract": "clause 'a block of duration T whose last-ending operation is a relation leaf occupies n*T': (latest end of the block's nodes - first-level start) "
                     "on the real unrolled block = n x T, T from the own evaluator on one copy of the content (inner blocks unrolled)", "bound": bound + f" ({total.probe['blocks_nT']} qualifying blocks of {total.probe['blocks']})", "evaluations": n["nT"]},
        {"function": "apply_modifiers_to_self", "contract": "clause 'resets all repetition counts to 1': nr_of_repetitions == 1 for every composite of the result (own walk), also after the registry "
                     "is changed afterwards", "bound": bound + " (per composite)", "evaluations": n["reset"]},
        {"function": "apply_modifiers_to_self / repeat", "contract": "clause 'leaves every other operation untouched': every composite with count 1 outside repeated blocks lists the same objects in the "
                     "same order, each with the same relation-link object and fields, same duration rule (own walk before / directly after, before anything is re-linked)", "bound": bound, "evaluations": n["untouched"]},
        {"function": "DeclarativeCircuit.apply_modifiers", "contract": "clause 'idempotent': a second application leaves the own-walk structure (objects, order, link objects), the public listing, "
                     "the schedule and the counts identical", "bound": bound, "evaluations": n["idempotent"]},
        {"function": "repeat / extend / get_node_iterator", "contract": "clause 'for library-built circuits the unrolled listing is exactly the n-fold concatenation of the block's listing': "
                     "(kind, qubits) sequence of circuit.operations after unrolling = recursive n-fold expansion of the not-unrolled twin's listing", "bound": f"{n['listing']} library circuits (both constructors)", "evaluations": n["listing"]},
        {"function": "DeclarativeCircuit.apply_modifiers", "contract": "succeeds on every built program", "bound": bound, "evaluations": n["succeeds"]},
    ]
    pr = total.probe
    res.probes = [
        {"assumption": f"memoised start times read right after unrolling WITHOUT clearing the memos differ from the fresh ones in {pr['stale_before_clear']} of {pr['stale_checked']} "
                       "sampled circuits (stale memos are C03's business; every clause here reads after common.clear_caches())", "ok": True},
        {"assumption": "composite durations (needed where an operation refers to a sub-circuit) are, in both own evaluators, the span earliest start .. latest end over every node "
                       "the block lists (the statement's definition; the library's `duration` is compared in the 'reported' clause)", "ok": True},
        {"assumption": f"n*T is judged with T = start of the copy's first-level operations .. its latest end (a copy 'begins' with its first-level operations); in "
                       f"{pr['blocks_early_start']} of {pr['blocks_nT']} qualifying blocks something starts earlier than that (JOINED_END with a longer duration), so the span is larger than T", "ok": True},
        {"assumption": f"reading circuit.operations re-linked relation-less first-level operations in {pr['handdown_relinks']} programs; the oracle models that hand-down", "ok": True},
        {"assumption": f"the n-fold-concatenation claim is NOT made for arbitrary programs: {pr['interleaved_listings']} generated programs have another (breadth-first interleaved) listing", "ok": True},
        {"assumption": f"'latest-ending' is discriminating: {pr['blocks_2_leaf_ends']} repeated blocks (count >= 2) have relation leaves with >= 2 distinct end times, "
                       f"{pr['blocks_3_leaf_ends']} with >= 3 (family P guarantees them in every run, fixed / registry / dynamic counts, single-level, nested, repeating root)",
         "ok": pr["blocks_2_leaf_ends"] > 0 and pr["blocks_3_leaf_ends"] > 0},
        {"assumption": f"largest unrolled circuit: {pr['max_ops']} operations", "ok": pr["max_ops"] > 0},
    ]
    for f in total.failures.values():
        f.pop("_size", None)
    res.failures = total.failures
    res.skipped = total.skipped
    out = res.write(args.out)
    print(f"{PROP} bounded: {out['evaluations']} evaluations, {total.cases} programs, {out['distinct_nontrivial']} distinct non-trivial, "
          f"{len(out['failures'])} failure keys, skipped {out['skipped']}, {out['wall_s']} s")
    for f in out["failures"]:
        print("  FAILURE", f["key"])
    harness = [k for k in out["skipped"] if k.startswith("harness error")]
    if harness or total.cases == 0:
        print("HARNESS ERROR:", harness or "no case was evaluated")
        return 2
    return 0


def replay(path):
    rec, a = common.load_replay(path)
    key = a.get("key") or rec.get("key") or rec.get("id") or rec.get("obligation")
    program = a["program"]
    print(f"replaying {key}")
    print(" program:", json.dumps(program))
    stats = Stats()
    L()
    check_program(program, stats, verbose=True)
    keys = sorted(stats.failures)
    print(" failure keys now:", keys, " skipped:", stats.skipped)
    if key in stats.failures:
        f = stats.failures[key]
        print(" observed:", json.dumps(f["observed"], default=str))
        print(" required:", json.dumps(f["required"], default=str))
        print(f"VIOLATION property={PROP} replay={path}")
        return 1
    print(" the recorded failure does not reproduce")
    return 0


if __name__ == "__main__":
    sys.exit(main())
