#!/usr/bin/env python
"""Bounded run-time stand-in for property C03 (answers depend on the circuit, not on what was asked before).

A *history* is a base build program followed by <= 5 (quick) / <= 6 (thorough) steps that interleave MUTATIONS
(add operation, add sub-circuit, add into a nested sub-circuit, apply_modifiers, flatten, DurationRegistry.
set_registry_at, enter / leave registry_duration.temporary_override_get_registry_at -- left normally or by an exception
that the program catches outside of the block, also nested, also with a drawing that raises inside) with OBSERVATIONS (operations,
times of the listed operations, times of held references, duration, get_acquisition_indices, plot_circuit compact
and non-compact, to_stim, copy of the structure).  After the history a fixed FINAL REPORT is read (listing, times,
duration, acquisition indices, stim text, a copy's reports, then apply_modifiers and the unrolled version's reports).

Every history is executed on REAL objects through the public API, in a fresh state (both lru_caches cleared once,
before the first step, fresh circuit, fresh registry) and NEVER clears a cache inside the history.  Checks:

  oracle   every reported start / end / duration (any observation, history or final report) equals an own evaluation
           of the relation equations over the link FIELDS (bounded.c18.Evaluator, never calls get_start_time) under
           the duration settings the harness itself has put in force (own model of the registry values and of the
           stack of global overrides; the library's registry objects are not consulted).
  repeat   the same query asked twice without a mutation in between gives the same answer.
  replay   the final report equals the final report of the same mutations replayed without the observations.

A failing history is minimised (greedy deletion of steps, history and final-report steps alike, until no single step can go) and
the failure key names the witness CLASS:

  C03:times:stale-memo:<last change>:<after-earlier-query | memo-filled-during-construction>
        a reported time is wrong and right again once both memos are cleared; <last change> in {set_registry_at, override_enter,
        override_leave, apply_modifiers, flatten, add (operation / sub-circuit / into a nested sub-circuit), listing} = the last mutation
        -- or listing that handed relation links down -- after the memo was first filled (by a query, or by apply_modifiers itself: extend evaluates end
        times); "<change>>plot_circuit" / "no-mutation:after-query=<q>" if the minimal history needs a query after the last change
        (never the case on the unchanged code for plot_circuit, which clears the memos)
  C03:times(start-fits-the-previous-own-duration):stale-memo:...   the operation's own duration changed (the memo is keyed on it)
  C03:<times|duration>:differs-with-fresh-memos:after=<last mutation>   wrong although both memos were cleared right before the read
  C03:override:not-restored-after-exception:<user-override | nested-user-override | plot_circuit-compact-override | ...>
  C03:override:not-restored:<which>      after an override block was left (by an exception the program catches / normally), the function
        installed on GlobalDurationRegistry is not the one in force before the block
  C03:<group>:changes-without-mutation:[<queries in between>]           same query, no mutation in between, different answers
  C03:<group>:depends-on-earlier-queries:<queries>><last mutation>      final report differs from the mutations-only replay
        (<queries>: "time-or-listing-query" = queries that read times, i.e. fill the memo, or that handed links down; others by name)
  (group: listing | times | acquisition_indices | to_stim | copy; "listing" as a query name = a query that handed links down)

Seed stability: the fine-grained keys above are only used for failures that the DETERMINISTIC families (K, T, X) show (and for failures of
the seeded-random families R / L that have the same fine key as one of those in the same run).  A failure that only the random families
show is reported as  C03:<component>:<family>:random-family  with component in {times, duration, listing, copy, acquisition_indices,
to_stim, plot, raises, override} and family in {stale-memo, differs-with-fresh-memos, changes-without-mutation,
depends-on-earlier-queries, not-restored, not-restored-after-exception}; its fine class is in witness.fine_class / observed.fine_class.

Per-input reporting: the deterministic families (K corpus, T templates, X exhaustive: the same inputs in every run of a tier, whatever
the seed; they run before the seeded-random families) report EVERY failing input, not only one witness per class: each failure record
carries "instances": {"complete", "count", "fps"} with fingerprint = sha1(canonical JSON of {program, history as enumerated, key})[:12],
and <out>.instances.json holds {fp: {key, witness, observed, required, minimal_history, ...}}.  --replay of such a single-input record
re-evaluates just that input.

See bounded/README.md for the command line and the output format.
"""
import os
import sys

os.environ.setdefault("MPLBACKEND", "Agg")
os.environ.setdefault("TQDM_DISABLE", "1")

import hashlib
import itertools
import json
import multiprocessing as mp
import random
import time
import traceback
import warnings

sys.path.insert(0, os.path.dirname(os.path.dirname(os.path.abspath(__file__))))
from bounded import common  # noqa: E402
from bounded import c18 as base  # noqa: E402  (builder pieces, own pointer walk, own evaluator of the relation equations)

PROP = "C03"
EPS = 1e-9
GLOBALS = base.GLOBALS          # "A" / "B": global duration tables different from the configuration file
op, sub = base.op, base.sub

OBS_KINDS = ["operations", "times", "held_times", "duration", "acq", "plot", "plot_nc", "stim", "copy"]
# names used in failure keys
MUT_NAME = {"add": "add_operation", "nest_sub": "add_sub_circuit", "add_to_sub": "add_into_nested_sub_circuit",
            "apply_modifiers": "apply_modifiers", "flatten": "flatten", "set_reg": "set_registry_at",
            "enter": "override_enter", "leave": "override_leave", "override_raise": "override_left_by_exception"}
# observations that merely read (and thereby may fill the memo) are one class in the keys of the oracle check; the
# listing (it hands relation links down, a de-facto mutator) and compact plotting (own invalidation) keep their names
OBS_NORMAL = {"operations": "operations", "plot": "plot_circuit"}
READ_NAME = {"plot": "plot_circuit", "plot_nc": "plot_circuit(non-compact)", "acq": "get_acquisition_indices", "stim": "to_stim",
             "listed_times": "times-of-listed-operations", "held_times": "times-of-held-references",
             "plot_bad": "plot_circuit(unknown-channel)", "plot_nc_bad": "plot_circuit(non-compact,unknown-channel)"}
UNKNOWN_CHANNEL = 97


def registry_fn():
    """the function object installed as GlobalDurationRegistry.get_registry_at right now (what an override replaces and must put back)"""
    return base.L().rd.GlobalDurationRegistry.__dict__["get_registry_at"]


_ORIG_FN = [None]


class _LeftByException(Exception):
    """raised inside an override block by the harness and caught outside of it"""


# ------------------------------------------------------------------------------------------------
# Steps
# ------------------------------------------------------------------------------------------------
def O(kind, on=None):
    st = {"o": kind}
    if on is not None:
        st["on"] = on
    return st


def M(kind, **kw):
    st = {"m": kind}
    st.update(kw)
    return st


FINAL = [O("operations"), O("times"), O("held_times"), O("duration"), O("acq"), O("stim"), O("copy"),
         M("apply_modifiers"), O("operations"), O("times")]


FIRST_TIMES, LAST_TIMES = "f1", "f9"     # the two time reads of the final report (before / after the final unrolling)


def with_sids(history):
    """history + final report, every step tagged with a stable id"""
    out = []

    def put(st, sid, **kw):
        if st.get("o") == "times":     # = read the listing, then the times of the listed operations
            out.append(dict(st, o="operations", sid=sid + "l", **kw))
            out.append(dict(st, o="listed_times", sid=sid, **kw))
        else:
            out.append(dict(st, sid=sid, **kw))
    for i, st in enumerate(history):
        put(st, f"h{i}")
    for i, st in enumerate(FINAL):
        put(st, f"f{i}", final=1)
    return out


def strip(steps):
    return [{k: v for k, v in st.items() if k not in ("sid", "final", "hoisted")} for st in steps if not st.get("final")]


def is_obs(st):
    return "o" in st


def is_history_obs(st):
    return "o" in st and not st.get("final")


def step_name(st, normalise):
    if "m" in st:
        if st["m"] == "make_sub":
            return None
        return MUT_NAME[st["m"]]
    k = st["o"]
    name = OBS_NORMAL.get(k, "query") if normalise else READ_NAME.get(k, k)
    if st.get("on") is not None:
        name += "(sub-circuit-before-nesting)"
    return name


def valid(steps, n_base):
    """static validity of a (possibly thinned) step list: references exist, overrides are balanced"""
    have = set(range(n_base))
    made, nested, depth = set(), set(), 0
    listed = set()
    for st in steps:
        if st.get("o") == "operations":
            listed.add(st.get("on"))
        if st.get("o") == "listed_times" and st.get("on") not in listed:
            return False
        if "m" in st:
            m = st["m"]
            if m == "add":
                rel = st["item"].get("rel")
                if rel and rel[0] not in have:
                    return False
                have.add(st["uid"])
            elif m == "make_sub":
                made.add(st["uid"])
            elif m == "nest_sub":
                if st["uid"] not in made or st["uid"] in nested:
                    return False
                nested.add(st["uid"])
                have.add(st["uid"])
            elif m == "add_to_sub":
                if st["sub"] not in have:
                    return False
            elif m == "enter":
                depth += 1
            elif m == "leave":
                if depth == 0:
                    return False
                depth -= 1
        elif st.get("on") is not None and st["on"] not in made:
            return False
    # a made sub-circuit that is never nested is pointless but harmless
    return True


# ------------------------------------------------------------------------------------------------
# Own evaluator: relation equations over the link fields, durations from the harness' own model
# ------------------------------------------------------------------------------------------------
_SPAN = [None]


def span_definition():
    """Which span does a composite's `duration` report?  'all' = latest end - earliest start over ALL contained operations (property
    C04's statement), 'legacy' = relation-leaf ends - first-level starts (the code before C04 was repaired).  Which one is RIGHT is C04's
    business; C03 only needs the times to be a function of structure and duration settings, so the oracle follows what a canary shows
    (fresh memos; a barrier JOINED_START to a longer first operation is neither first-level nor the latest-ending)."""
    if _SPAN[0] is None:
        lib = base.L()
        if _ORIG_FN[0] is None:
            _ORIG_FN[0] = registry_fn()      # before any override of this process
        common.clear_caches()
        with warnings.catch_warnings():
            warnings.simplefilter("ignore")
            c = lib.DeclarativeCircuit()
            a = c.add(lib.co.Wait(0, duration_strategy=lib.rd.FixedDurationStrategy(duration=1.0)))
            b = lib.co.Barrier([0, 1])
            b.relation_link = lib.RelationLink(a, lib.RelationType.JOINED_START)
            c.add(b)
            d = c.duration
        common.clear_caches()
        _SPAN[0] = "all" if close(d, 1.0) else "legacy" if close(d, 0.5) else f"unknown({d})"
    return _SPAN[0]


class Ev(base.Evaluator):
    def __init__(self, table, regmodel):
        super().__init__(table)
        self.R = regmodel
        self.span = span_definition()

    def dur(self, o):
        if not base.is_composite(o):
            s = getattr(o, "duration_strategy", None)
            if type(s).__name__ == "RegistryDurationStrategy":
                return float(self.R.get(s.registry_key, 0.0))   # registry default 0.0 (documented default)
            return super().dur(o)
        if self.span == "legacy":
            return super().dur(o)
        k = id(o)
        if k not in self._d:
            nodes = base.composite_nodes(o)[2]
            v = 0.0
            if nodes:
                first = min(self.start(n.operation) for n in nodes)
                v = max(0.0, max(self.end(n.operation) for n in nodes) - first)
            self._d[k] = v
        return self._d[k]


# ------------------------------------------------------------------------------------------------
# A fresh world: circuit + the harness' own model of the duration settings
# ------------------------------------------------------------------------------------------------
class Invalid(Exception):
    pass


class World:
    def __init__(self, program):
        lib = base.L()
        self.lib = lib
        self.program = program
        self.registry = lib.rd.DurationRegistry()
        self.regmodel = {}
        self.stack = []        # [(name, context manager)]  own model of the overrides in force
        self.held = {}         # uid -> object in the circuit (what add returned)
        self.pending = {}      # uid -> DeclarativeCircuit built but not yet nested
        self.keep = []         # keeps every object alive (ids stay unique within a run)
        self.last_listing = {}  # target -> (ops, comps, top) of the latest operations query
        self.seen_dur = {}     # id(operation) -> duration it reported at the previous time read
        self.expected_fn = None
        self.mid_bad = None
        self.diag_sid = None   # diagnosis replays only: clear the caches right before the reads of this observation
        self.diag = False
        self.file_table = base.table_of("file")
        if "lib" in program:
            self.circ = base.build(dict(program, post="none"))
            self.acq = self.circ.get_acquisition_strategy()
        else:
            self.circ = lib.DeclarativeCircuit()
            self.acq = self.circ.get_acquisition_strategy()
            for k, v in sorted(program.get("reg", {}).items()):
                self.registry.set_registry_at(k, float(v))
                self.regmodel[k] = float(v)
            added = self._build_items(self.circ, program["items"], top=True)
            for i, o in enumerate(added):
                self.held[i] = o
        self.keep.append(self.circ)

    # ---- building ------------------------------------------------------------------------------
    def _make_op(self, it, rel):
        lib = self.lib
        if "reg" in it:
            kw = {"duration_strategy": lib.rd.RegistryDurationStrategy(registry=self.registry, registry_key=it["reg"])}
            if rel is not None:
                kw["relation"] = rel
            k, q = it["k"], it["q"]
            if k in base.SQ_FIXED:
                if k != "SingleQubitOperation":
                    kw["qubit_channel"] = getattr(lib.QubitChannel, base.CH[it.get("ch", "ALL")])
                return getattr(lib.co, k)(q[0], **kw)
            if k in ("TwoQubitOperation", "VirtualTwoQubitVacant"):
                return getattr(lib.co, k)(q[0], q[1], **kw)
            raise ValueError(f"kind {k} has no free duration strategy")
        return base._make_op(lib, it, rel, self.acq)

    def _link(self, target, t):
        return self.lib.RelationLink(target, getattr(self.lib.RelationType, base.RELT[t]))

    def _build_items(self, circ, items, top=False):
        added = []
        for it in items:
            rel = None
            if it.get("rel"):
                idx, t = it["rel"]
                rel = self._link(added[idx], t)
            if it["k"] == "sub":
                added.append(circ.add(self._make_sub(it, rel)))
            else:
                added.append(circ.add(self._make_op(it, rel)))
        return added

    def _make_sub(self, it, rel=None):
        kw = {"repetition_strategy": self.lib.FixedRepetitionStrategy(int(it.get("reps", 1)))}
        if rel is not None:
            kw["relation"] = rel
        s = self.lib.DeclarativeCircuit(**kw)
        self._build_items(s, it["items"])
        self.keep.append(s)
        return s

    # ---- duration settings (own model) -------------------------------------------------------------
    def table(self):
        return dict(GLOBALS[self.stack[-1][0]]) if self.stack else dict(self.file_table)

    def restore_check(self, st, before, raised):
        """after a step: is the function installed on GlobalDurationRegistry the one that has to be in force?  -> None | detail"""
        now = registry_fn()
        m = st.get("m")
        if m == "enter":
            return None
        expected = self.expected_fn if m == "leave" else before
        mid = self.mid_bad if m == "override_raise" else None
        if now is expected and not mid:
            return None
        if m == "leave":
            which, exc = ("nested-user-override" if self.stack else "user-override"), st.get("by") == "exception"
        elif m == "override_raise":
            which, exc = ("nested-user-override" if (st.get("inner") or self.stack) else "user-override"), True
            if st.get("how") == "plot_unknown_channel" and st.get("compact") and now is not expected:
                which += "-around-plot_circuit"
        elif st.get("o") in ("plot", "plot_bad"):
            which, exc = "plot_circuit-compact-override", raised
        else:
            which, exc = "changed-by-" + (step_name(st, False) or str(m)), raised
        return {"kind": "not-restored-after-exception" if exc else "not-restored", "which": which,
                "installed": "the function of the block that was left" if now is not _ORIG_FN[0] else "the process' original",
                "required": "the function in force before the block" + (" (the process' original)" if expected is _ORIG_FN[0] else " (the enclosing override)")}

    def evaluator(self):
        return Ev(self.table(), dict(self.regmodel))

    def _tab(self, g):
        return {getattr(self.lib.rd.GlobalRegistryKey, k): v for k, v in GLOBALS[g].items()}

    def _override_raise(self, st):
        """a real `with temporary_override_get_registry_at(...)` block (optionally a second one nested in it) that is left by an exception
        which the program catches outside; afterwards the duration settings in force before the block must be back"""
        over = self.lib.rd.temporary_override_get_registry_at
        how, inner = st.get("how", "raise"), st.get("inner")

        def body():
            if how == "plot_unknown_channel":
                try:
                    self.lib.dc.plot_circuit(self.circ, channel_order=[UNKNOWN_CHANNEL], compact_visualization=bool(st.get("compact")))
                finally:
                    self.lib.plt.close("all")
            raise _LeftByException("raised inside the override block")
        self.mid_bad = None
        try:
            with over(self._tab(st["G"])):
                outer_fn = registry_fn()
                if inner and how == "inner_caught":
                    try:
                        with over(self._tab(inner)):
                            raise _LeftByException("raised inside the inner override block")
                    except _LeftByException:
                        pass
                    if registry_fn() is not outer_fn:
                        self.mid_bad = "nested-user-override"
                elif inner:
                    with over(self._tab(inner)):
                        body()
                else:
                    body()
        except Exception:  # the program survives the exception (ours, or the drawing's ValueError for the unknown channel)
            pass

    def unwind(self):
        while self.stack:
            _, cm, _prev = self.stack.pop()
            try:
                cm.__exit__(None, None, None)
            except Exception:  # noqa
                pass

    # ---- mutations -----------------------------------------------------------------------------------
    def mutate(self, st):
        lib, m = self.lib, st["m"]
        if m == "add":
            it = st["item"]
            rel = None
            if it.get("rel"):
                uid, t = it["rel"]
                if uid not in self.held:
                    raise Invalid("relation to a missing item")
                rel = self._link(self.held[uid], t)
            self.held[st["uid"]] = self.circ.add(self._make_op(it, rel))
        elif m == "make_sub":
            self.pending[st["uid"]] = self._make_sub(st["item"])
        elif m == "nest_sub":
            if st["uid"] not in self.pending:
                raise Invalid("nesting a sub-circuit that was not made")
            self.held[st["uid"]] = self.circ.add(self.pending[st["uid"]])
        elif m == "add_to_sub":
            target = self.held.get(st["sub"])
            if target is None or not base.is_composite(target):
                raise Invalid("no such nested sub-circuit")
            target.add(self._make_op(st["item"], None))
        elif m == "apply_modifiers":
            self.circ = self.circ.apply_modifiers()
            self.keep.append(self.circ)
        elif m == "flatten":
            self.circ = self.circ.flatten()
            self.keep.append(self.circ)
        elif m == "set_reg":
            self.registry.set_registry_at(st["key"], float(st["value"]))
            self.regmodel[st["key"]] = float(st["value"])
        elif m == "enter":
            tab = {getattr(lib.rd.GlobalRegistryKey, k): v for k, v in GLOBALS[st["G"]].items()}
            prev = registry_fn()
            cm = lib.rd.temporary_override_get_registry_at(tab)
            cm.__enter__()
            self.stack.append((st["G"], cm, prev))
        elif m == "leave":
            if not self.stack:
                raise Invalid("leave without enter")
            _, cm, prev = self.stack.pop()
            self.expected_fn = prev
            if st.get("by") == "exception":
                # exactly what the `with` statement does when the block raises: the exception is thrown into the context manager
                # (which must restore and let it pass); the program catches it outside of the block and goes on
                e = _LeftByException("raised inside the override block")
                try:
                    raise e
                except _LeftByException:
                    swallowed = cm.__exit__(type(e), e, e.__traceback__)
                if swallowed:
                    raise Crash("the override swallowed the exception")
            else:
                cm.__exit__(None, None, None)
        elif m == "override_raise":
            self._override_raise(st)
        else:
            raise ValueError(m)

    # ---- observations ----------------------------------------------------------------------------------
    def observe(self, st):
        """-> (value: {component: canonical value}, oracle failures: {field: detail})"""
        kind = st["o"]
        if st.get("on") is not None:
            if st["on"] not in self.pending:
                raise Invalid("observing a sub-circuit that was not made")
            circ = self.pending[st["on"]]
        else:
            circ = self.circ
        val, bad = {}, {}
        self.diag = self.diag_sid is not None and st.get("sid") == self.diag_sid
        self.target = st.get("on")

        def links():
            out = {}
            for o in base.walk_all_ops(circ.circuit_structure):
                l = o.relation
                refs = l._reference_nodes if type(l).__name__ == "MultiRelationLink" else [l._reference_node]
                out[id(o)] = ((tuple(id(r) if r is not None else None for r in refs), l._relation_type.name), id(l))
            return out
        before = links()
        try:
            getattr(self, "_obs_" + kind)(circ, val, bad)
        except Invalid:
            raise
        except Exception as e:  # an observation that raises is recorded, the run goes on
            val["raises"] = f"{type(e).__name__}"
        # did this query (the listing, or a query that lists internally) hand a relation link down so that an operation now refers to
        # something else?  (own walk over the link fields; only used to name the witness class)
        after = links()
        val["_handed_down"] = any(k in before and before[k][0] != v[0] for k, v in after.items())
        val["_relinked"] = any(k in before and before[k][1] != v[1] for k, v in after.items())      # link objects replaced (same meaning or not)
        return val, bad

    def _listing(self, circ, val, prefix=""):
        declarative = hasattr(type(circ), "circuit_structure")
        ops = circ.operations if declarative else circ.decomposed_operations()
        comps = circ.composite_operations if declarative else circ.get_sub_composite_operations()
        top = circ.circuit_structure if declarative else circ
        self.keep.append(ops)
        self.keep.append(comps)
        idx = {id(o): i for i, o in enumerate(ops)}
        cidx = {id(c): i for i, c in enumerate(comps)}

        def ref(r):
            if r is None:
                return "none"
            if id(r) in idx:
                return ["op", idx[id(r)]]
            if id(r) in cidx:
                return ["comp", cidx[id(r)]]
            if r is top:
                return "top"
            return ["foreign", type(r).__name__]

        def link(l):
            if type(l).__name__ == "MultiRelationLink":
                return ["multi", [ref(r) for r in l._reference_nodes], l._relation_type.name, l._relation_to_group.name]
            return ["single", ref(l._reference_node), l._relation_type.name]

        def strat(o):
            s = getattr(o, "duration_strategy", None)
            n = type(s).__name__
            if n == "FixedDurationStrategy":
                return [n, s.duration]
            if n == "RegistryDurationStrategy":
                return [n, s.registry_key]
            if n == "GlobalDurationStrategy":
                return [n, s.key.name]
            return [n]

        val[("_" if prefix else "") + prefix + "ids"] = [id(o) for o in ops]
        val[prefix + "operations"] = [[type(o).__name__, list(base.op_qubits(o)), strat(o)] for o in ops]
        val[prefix + "relations"] = [link(o.relation) for o in ops]
        val[prefix + "composites"] = [[c.nr_of_repetitions, link(c.relation), len(base.composite_nodes(c)[2])] for c in comps]
        return ops, comps, top

    def _obs_operations(self, circ, val, bad):
        self.last_listing[self.target] = self._listing(circ, val)

    def _read_times(self, circ, ops, comps, top, val, bad, prefix=""):
        if self.diag:
            common.clear_caches()
        rep = [(o.start_time, o.end_time, o.duration) for o in ops]
        crep = [(c.start_time, c.duration) for c in comps]
        cd = (top.start_time, circ.duration)
        ev = self.evaluator()
        val[prefix + "start_time"] = [[r[0], r[1]] for r in rep]
        val[prefix + "duration"] = [r[2] for r in rep]
        val[prefix + "composite.start_time"] = [r[0] for r in crep]
        val[prefix + "composite.duration"] = [r[1] for r in crep]
        val[prefix + "circuit.duration"] = list(cd)
        via = {"via": prefix.rstrip(".")} if prefix else {}
        for i, o in enumerate(ops):
            s, d = ev.start(o), ev.dur(o)
            if not close(rep[i][2], d):
                bad.setdefault("duration", dict(via, operation=i, kind=type(o).__name__, reported_duration=rep[i][2], required=d))
            if not close(rep[i][0], s) or not close(rep[i][1], s + d):
                bad.setdefault("times", dict(via, operation=i, kind=type(o).__name__, reported_start_end=[rep[i][0], rep[i][1]], required=[s, s + d]))
                # the witness class "the operation's OWN duration changed and its start still fits the previous one" (start = end of the
                # reference - own duration): the memo is keyed on the own duration, so this class is not expected on the unchanged code
                old, l = self.seen_dur.get(id(o)), o.relation
                if old is not None and not close(old, rep[i][2]) and type(l).__name__ == "RelationLink" and l._reference_node is not None \
                        and l._relation_type.name == "JOINED_END" and close(rep[i][0] + old, ev.end(l._reference_node)) \
                        and close(l._reference_node.end_time, ev.end(l._reference_node)):   # ... while the reference itself is reported right
                    bad.setdefault("times(start-fits-the-previous-own-duration)", dict(
                        via, operation=i, kind=type(o).__name__, previous_duration=old, duration=rep[i][2], reported_start_end=[rep[i][0], rep[i][1]],
                        required=[s, s + d]))
        for i, o in enumerate(ops):
            self.seen_dur[id(o)] = rep[i][2]
        for i, c in enumerate(comps):
            s, d = ev.start(c), ev.dur(c)
            if not close(crep[i][1], d) or not close(crep[i][0], s):
                bad.setdefault("times", dict(via, composite=i, reported_start_duration=list(crep[i]), required=[s, d]))
        if not close(cd[1], ev.dur(top)) or not close(cd[0], ev.start(top)):
            bad.setdefault("times", dict(via, circuit=True, reported_start_duration=list(cd), required=[ev.start(top), ev.dur(top)]))

    def _obs_listed_times(self, circ, val, bad):
        """start / end / duration of the operations of the latest listing (for o in circuit.operations: o.start_time ...)"""
        if self.target not in self.last_listing:
            raise Invalid("times of listed operations without a listing")
        ops, comps, top = self.last_listing[self.target]
        val["ids"] = [id(o) for o in ops]
        self._read_times(circ, ops, circ.composite_operations, circ.circuit_structure, val, bad)

    def _obs_held_times(self, circ, val, bad):
        """times of the references a user holds (what add returned) and of the composites; no listing is read"""
        if circ is self.circ:
            objs = [(f"item{u}", o) for u, o in sorted(self.held.items())]
        else:
            objs = []
        objs += [(f"composite{i}", c) for i, c in enumerate(circ.composite_operations)]
        objs.append(("circuit", circ.circuit_structure))
        self.keep.append(objs)
        if self.diag:
            common.clear_caches()
        rep = {n: (o.start_time, o.end_time, o.duration) for n, o in objs}
        ev = self.evaluator()
        val["held.ids"] = [id(o) for _, o in objs]
        val["held.start_time"] = {n: [r[0], r[1]] for n, r in rep.items()}
        val["held.duration"] = {n: r[2] for n, r in rep.items()}
        for n, o in objs:
            s, d = ev.start(o), ev.dur(o)
            if not close(rep[n][2], d):
                bad.setdefault("times" if base.is_composite(o) else "duration",
                               {"reference": n, "kind": type(o).__name__, "reported_duration": rep[n][2], "required": d})
            if not close(rep[n][0], s) or not close(rep[n][1], s + d):
                bad.setdefault("times", {"reference": n, "kind": type(o).__name__, "reported_start_end": [rep[n][0], rep[n][1]], "required": [s, s + d]})

    def _obs_duration(self, circ, val, bad):
        if self.diag:
            common.clear_caches()
        d = circ.duration
        val["circuit.duration"] = [0.0, d]
        want = self.evaluator().dur(circ.circuit_structure)
        if not close(d, want):
            bad["times"] = {"circuit": True, "reported_duration": d, "required": want}

    def _obs_acq(self, circ, val, bad):
        qs = sorted(set(range(4)) | set(base.program_qubits(self.program)))
        val["acquisition_indices"] = {str(q): [int(v) for v in circ.get_acquisition_indices(q)] for q in qs}
        per = []
        for i, o in enumerate(circ.operations):
            if hasattr(o, "acquisition_index"):
                per.append([i, int(o.acquisition_index), int(o.circuit_level_acquisition_index)])
        val["acquisition_index"] = per

    def _plot(self, circ, compact):
        try:
            self.lib.dc.plot_circuit(circ, compact_visualization=compact)
        finally:
            self.lib.plt.close("all")

    def _obs_plot(self, circ, val, bad):
        self._plot(circ, True)
        val["plot"] = "drawn"

    def _obs_plot_nc(self, circ, val, bad):
        self._plot(circ, False)
        val["plot"] = "drawn"

    def _obs_plot_bad(self, circ, val, bad):
        """compact drawing with a channel the circuit does not have: raises inside plot_circuit's own duration override"""
        try:
            self.lib.dc.plot_circuit(circ, channel_order=[UNKNOWN_CHANNEL], compact_visualization=True)
        finally:
            self.lib.plt.close("all")
        val["plot"] = "drawn"

    def _obs_plot_nc_bad(self, circ, val, bad):
        try:
            self.lib.dc.plot_circuit(circ, channel_order=[UNKNOWN_CHANNEL], compact_visualization=False)
        finally:
            self.lib.plt.close("all")
        val["plot"] = "drawn"

    def _obs_stim(self, circ, val, bad):
        from qce_circuit.addon_stim import to_stim
        val["to_stim"] = str(to_stim(circ))

    def _obs_copy(self, circ, val, bad):
        cp = circ.circuit_structure.copy()
        self.keep.append(cp)
        ops, comps, top = self._listing(cp, val, prefix="copy.")
        self._read_times(cp, ops, comps, top, val, bad, prefix="copy.")


def close(a, b):
    return abs(a - b) <= EPS


# ------------------------------------------------------------------------------------------------
# Running a step list
# ------------------------------------------------------------------------------------------------
class Crash(Exception):
    """a mutation raised: the history cannot be built"""


def run(program, steps, skip_history_obs=False, clear_before=None, fresh_probe=False):
    """executes the steps on a fresh world; -> {sid: (value, oracle failures)}.
    The caches are cleared ONCE, before the first step (fresh state), never inside.
    clear_before: sid of one observation before which the caches are cleared (diagnosis replays only)."""
    lib = base.L()
    span_definition()
    common.clear_caches()
    rec = {}
    w = None
    try:
        with warnings.catch_warnings():
            warnings.simplefilter("ignore")
            try:
                w = World(program)
            except Exception as e:  # noqa
                raise Crash(f"base program cannot be built: {type(e).__name__}")
            for st in steps:
                before = registry_fn()
                if "m" in st:
                    try:
                        w.mutate(st)
                    except (Invalid, Crash):
                        raise
                    except Exception as e:  # noqa
                        raise Crash(f"mutation {st['m']} raised {type(e).__name__}")
                    nr = w.restore_check(st, before, False)
                    if nr:
                        rec[st["sid"]] = ({}, {"override": nr})
                else:
                    if skip_history_obs and not st.get("final"):
                        continue
                    w.diag_sid = clear_before
                    rec[st["sid"]] = w.observe(st)
                    nr = w.restore_check(st, before, "raises" in rec[st["sid"]][0])
                    if nr:
                        rec[st["sid"]][1]["override"] = nr
            if fresh_probe:
                # after the run: with fresh memos the library's own report must agree with the evaluator
                common.clear_caches()
                w.diag_sid = None
                w.observe(dict(O("operations"), sid="_p"))
                rec["_probe"] = w.observe(dict(O("listed_times"), sid="_p2"))
    finally:
        if w is not None:
            w.unwind()
        if _ORIG_FN[0] is not None and registry_fn() is not _ORIG_FN[0]:
            # harness hygiene only (after all checks of this run): an override the library left installed must not leak into the next run
            lib.rd.GlobalDurationRegistry.get_registry_at = _ORIG_FN[0]
        lib.plt.close("all")
        common.clear_caches()
    return rec


TIME_COMPONENTS = ("start_time", "duration", "composite.start_time", "composite.duration", "circuit.duration")


def is_time_component(c):
    return c.endswith("start_time") or c.endswith("duration")


def primary_fields(bad):
    return [f for f in bad if f != "override"]


def repeat_pairs(steps):
    """pairs (i, j) of same-kind observations of the same target without a mutation in between (consecutive ones)"""
    pairs, last = [], {}
    for n, st in enumerate(steps):
        if "m" in st:
            if st["m"] != "make_sub":
                last = {}
            continue
        k = (st["o"], st.get("on"))
        if k in last:
            pairs.append((last[k], n))
        last[k] = n
    return pairs


GROUP_ORDER = ["listing", "acquisition_indices", "to_stim", "plot", "raises", "copy", "times"]


def group_of(c):
    if c.startswith("copy."):
        return "copy"
    if is_time_component(c):
        return "times"
    if c in ("operations", "relations", "composites", "ids", "held.ids"):
        return "listing"
    if c.startswith("acquisition"):
        return "acquisition_indices"
    return c


def differing(v1, v2, skip_ids=False):
    out = []
    for c in v1:
        if c.startswith("_"):
            continue
        if c in v2 and v1[c] != v2[c]:
            if skip_ids and c.endswith("ids"):
                continue
            out.append(c)
    for c in ("raises",):
        if (c in v1) != (c in v2):
            out.append(c)
    return out


def analyse(program, steps, recA, recB):
    """-> list of findings {check, field, sids, detail}"""
    out = []
    # oracle (run with the observations): per field the first failing observation; the times of the unrolled version (f9) as well
    # if the times of the final report proper (f1) were right
    first = {}
    for st in steps:
        if not is_obs(st) or st["sid"] not in recA:
            continue
        val, bad = recA[st["sid"]]
        for f in primary_fields(bad) if bad else []:
            if f not in first:
                first[f] = st["sid"]
                out.append({"check": "oracle", "field": f, "sids": [st["sid"]]})
            elif st["sid"] == LAST_TIMES and not (FIRST_TIMES in recA and f in recA[FIRST_TIMES][1]):
                out.append({"check": "oracle", "field": f, "sids": [st["sid"]]})
    for st in steps:      # duration settings not put back (first such step)
        if st["sid"] in recA and "override" in recA[st["sid"]][1]:
            out.append({"check": "restore", "field": "override", "sids": [st["sid"]]})
            break
    any_oracle_A = {st["sid"] for st in steps if st["sid"] in recA and primary_fields(recA[st["sid"]][1])}
    # repeat: the first pair that differs, its most basic differing group
    done = False
    for i, j in repeat_pairs(steps):
        a, b = steps[i]["sid"], steps[j]["sid"]
        if done or a not in recA or b not in recA:
            continue
        groups = set()
        for c in differing(recA[a][0], recA[b][0]):
            if is_time_component(c) and (a in any_oracle_A or b in any_oracle_A):
                continue   # a stale report: already a finding of the oracle check
            groups.add(group_of(c))
        for g in GROUP_ORDER + sorted(groups - set(GROUP_ORDER)):
            if g in groups:
                out.append({"check": "repeat", "field": g, "sids": [a, b]})
                done = True
                break
    # replay (final report with vs without the observations): the first final-report step that differs, most basic group
    if recB is not None:
        for st in steps:
            if not st.get("final") or not is_obs(st):
                continue
            s = st["sid"]
            if s not in recA or s not in recB:
                continue
            groups = set()
            for c in differing(recA[s][0], recB[s][0], skip_ids=True):
                if is_time_component(c) and (recA[s][1] or recB[s][1]):
                    continue   # a stale report in one of the two runs: already a finding of the oracle check
                groups.add(group_of(c))
            hit = [g for g in GROUP_ORDER + sorted(groups - set(GROUP_ORDER)) if g in groups]
            if hit:
                out.append({"check": "replay", "field": hit[0], "sids": [s]})
                break
    return out


def _short(v):
    s = json.dumps(v, default=str)
    return v if len(s) <= 400 else s[:400] + "..."


# ------------------------------------------------------------------------------------------------
# Minimisation and classification of one finding
# ------------------------------------------------------------------------------------------------
class Budget:
    def __init__(self):
        self.replays = 0


def holds(program, steps, finding, budget):
    """does the finding (same check, same field, same step ids) show on this step list?"""
    n_base = len(program.get("items", []))
    if not valid(steps, n_base):
        return False
    budget.replays += 1
    try:
        recA = run(program, steps)
    except (Crash, Invalid):
        return False
    chk, f, sids = finding["check"], finding["field"], finding["sids"]
    if any(s not in recA for s in sids):
        return False
    if chk in ("oracle", "restore"):
        return f in recA[sids[0]][1]
    if chk == "repeat":
        order = [st["sid"] for st in steps]
        i, j = order.index(sids[0]), order.index(sids[1])
        if any("m" in st and st["m"] != "make_sub" for st in steps[i:j]):
            return False
        a, b = recA[sids[0]][0], recA[sids[1]][0]
        stale = bool(recA[sids[0]][1] or recA[sids[1]][1])
        return any(group_of(c) == f and not (stale and is_time_component(c)) for c in differing(a, b))
    if chk == "replay":
        budget.replays += 1
        try:
            recB = run(program, steps, skip_history_obs=True)
        except (Crash, Invalid):
            return False
        s = sids[0]
        if s not in recB:
            return False
        stale = bool(recA[s][1] or recB[s][1])
        return any(group_of(c) == f and not (stale and is_time_component(c)) for c in differing(recA[s][0], recB[s][0], skip_ids=True))
    raise ValueError(chk)


def minimise(program, steps, finding, budget):
    """greedy deletion of steps (history and final report alike) as long as the same finding shows"""
    keep = set(finding["sids"])
    cur = list(steps)
    # everything after the last step of the finding is irrelevant
    last = max(n for n, st in enumerate(cur) if st["sid"] in keep)
    cur = cur[:last + 1]
    # big chunks first: the whole history, the history's observations, the other final-report steps
    for chunk in (lambda st: not st.get("final"), lambda st: is_history_obs(st), lambda st: st.get("final")):
        cand = [st for st in cur if st["sid"] in keep or not chunk(st)]
        if len(cand) < len(cur) and holds(program, cand, finding, budget):
            cur = cand
    limit = len(cur)          # steps at positions >= limit were already tested in the present context
    while True:
        n, last_del = 0, None
        while n < min(limit, len(cur)):          # earliest steps first: what remains is as close to the failing read as possible
            if cur[n]["sid"] not in keep:
                cand = cur[:n] + cur[n + 1:]
                if holds(program, cand, finding, budget):
                    cur = cand
                    last_del = n
                    limit -= 1
                    continue
                if cur[n].get("m") == "enter":       # an override together with its leave
                    depth, mate = 0, None
                    for k in range(n + 1, len(cur)):
                        if cur[k].get("m") == "enter":
                            depth += 1
                        elif cur[k].get("m") == "leave":
                            if depth == 0:
                                mate = k
                                break
                            depth -= 1
                    if mate is not None and cur[mate]["sid"] not in keep:
                        cand = cur[:n] + cur[n + 1:mate] + cur[mate + 1:]
                        if holds(program, cand, finding, budget):
                            cur = cand
                            last_del = n
                            limit -= 2 if mate < limit else 1
                            continue
            n += 1
        if last_del is not None and last_del > 0:
            limit = last_del      # only steps tested before the last deletion can have become removable
            continue
        if finding["check"] != "oracle":
            break
        # a listing that is only needed to get hold of the operations is moved to the front (before the memo is filled), so that a
        # listing stays behind the memo-filling steps only where its handing down of relation links is part of the cause
        moved = False
        for n in range(1, len(cur)):
            if cur[n].get("o") == "operations" and cur[n]["sid"] not in keep and not cur[n].get("hoisted"):
                tgt = cur[n].get("on")
                pos = 0 if tgt is None else 1 + max([i for i, st in enumerate(cur[:n]) if st.get("m") == "make_sub" and st["uid"] == tgt], default=-1)
                if pos < n and any("o" in st and st["o"] != "operations" or st.get("m") == "apply_modifiers" for st in cur[pos:n]):
                    cand = cur[:pos] + [dict(cur[n], hoisted=1)] + cur[pos:n] + cur[n + 1:]
                    if holds(program, cand, finding, budget):
                        cur = cand
                        moved = True
                        break
        if not moved:
            break
        limit = len(cur)
    return cur


# the three ways of adding are one class of "last change" (the witness says which)
CAUSE_NAME = {"add": "add", "nest_sub": "add", "add_to_sub": "add"}


def oracle_cause(before, rec):
    """witness class of a wrong time: the last of the mutations -- and of the listings that handed relation links down -- that came after
    the memo was first filled (by a query or, with multi-links, by apply_modifiers itself), and whether a query came before it"""
    tokens, filled, queried, flag, plot_after = [], False, False, False, False
    for st in before:
        if "o" in st:
            if filled and rec.get(st["sid"], ({}, {}))[0].get("_handed_down"):
                tokens.append("listing")
                flag = queried
                plot_after = False
            if st["o"] != "operations":
                filled = queried = True
            if st["o"] == "plot":
                plot_after = True     # a compact drawing that the minimal history needs: it clears the memos, so it should never be needed
        elif st["m"] == "make_sub":
            continue
        elif st["m"] == "apply_modifiers":
            tokens.append(MUT_NAME[st["m"]])
            filled = True
            flag = queried
            plot_after = False
        elif st["m"] == "override_raise":
            # = enter, (a drawing attempt inside the block = a query), leave: the same classes as the separate steps
            if st.get("how") == "plot_unknown_channel":
                filled = queried = True
            if filled:
                tokens.append(MUT_NAME["leave"])
                flag = queried
                plot_after = False
        elif filled:
            tokens.append(CAUSE_NAME.get(st["m"], MUT_NAME[st["m"]]))
            flag = queried
            plot_after = False
    if tokens and plot_after:
        return tokens[-1] + ">plot_circuit" + (":after-earlier-query" if flag else ":memo-filled-during-construction")
    if not tokens:
        last = [step_name(st, False) for st in before if "o" in st and st["o"] != "operations"]
        return f"no-mutation:after-query={last[-1]}" if last else "plain-build-and-read"
    return tokens[-1] + (":after-earlier-query" if flag else ":memo-filled-during-construction")


def classify(program, steps, finding, budget):
    """-> (key, minimal step list, records of the run of the minimal step list)"""
    ck = None
    if all(s.startswith("f") for s in finding["sids"]):
        # does the final report alone (no history at all) show the finding?  then its class does not depend on the history: cache per program
        final_only = [st for st in steps if st.get("final")]
        ck = (json.dumps(program, sort_keys=True), finding["check"], finding["field"], tuple(finding["sids"]))
        if ck in _FINAL_CACHE:
            if _FINAL_CACHE[ck] is not None:
                return _FINAL_CACHE[ck]
            ck = None
        elif holds(program, final_only, finding, budget):
            steps = final_only
        else:
            _FINAL_CACHE[ck] = None
            ck = None
    smin = minimise(program, steps, finding, budget)
    budget.replays += 1
    rec0 = run(program, smin)
    chk, f, sids = finding["check"], finding["field"], finding["sids"]
    order = [st["sid"] for st in smin]

    def nm(st):
        v = rec0.get(st["sid"], ({}, {}))[0] if "o" in st else {}
        if v.get("_handed_down") or v.get("_relinked"):
            return "listing"        # the listing, or a query that lists internally, handed relation links down / replaced link objects
        return step_name(st, False)
    if chk == "oracle":
        j = order.index(sids[0])
        # memo or not: the same minimal history with both caches cleared right before the failing read
        budget.replays += 1
        try:
            rec = run(program, smin, clear_before=sids[0])
            fresh_ok = f not in rec[sids[0]][1]
        except (Crash, Invalid):
            fresh_ok = False
        if fresh_ok:
            kind, cause = "stale-memo", oracle_cause(smin[:j], rec0)
        else:
            # not a matter of the two start-time memos: name the last mutation (else the last query) before the wrong read
            muts = [MUT_NAME[st["m"]] for st in smin[:j] if "m" in st and st["m"] != "make_sub"]
            qs = [step_name(st, False) for st in smin[:j] if "o" in st and st["o"] != "operations"]
            kind = "differs-with-fresh-memos"
            cause = ("after=" + muts[-1]) if muts else ("after-query=" + qs[-1]) if qs else "plain-build-and-read"
        key = f"{PROP}:{f}:{kind}:{cause}"
    elif chk == "restore":
        d = rec0[sids[0]][1]["override"]
        key = f"{PROP}:override:{d['kind']}:{d['which']}"
    elif chk == "repeat":
        i, j = order.index(sids[0]), order.index(sids[1])
        names = [n for n in (nm(st) for st in smin[i + 1:j]) if n]       # what precedes the first of the two reads is witness, not class
        between = ">".join(n for k, n in enumerate(names) if k == 0 or names[k - 1] != n)
        key = f"{PROP}:{f}:changes-without-mutation:[{between}]"
    else:
        j = order.index(sids[0])
        # class: the queries the difference needs, and the last mutation before the differing report (other mutations: witness, not class)
        # queries that read times (they fill the memo) or that handed links down / replaced link objects ("listing") are one class of
        # earlier query; any other query the difference needs keeps its name
        timeq = {READ_NAME["listed_times"], READ_NAME["held_times"], READ_NAME["plot_nc"], READ_NAME["plot_nc_bad"], "duration", "listing",
                 READ_NAME["plot"], READ_NAME["plot_bad"]}      # (compact drawings clear the memos: a side effect on the memo as well)
        names = {("time-or-listing-query" if nm(st) in timeq else nm(st)) for st in smin[:j] if "o" in st}
        names = sorted(names)
        muts = [MUT_NAME[st["m"]] for st in smin[:j] if "m" in st and st["m"] != "make_sub"]
        cause = ">".join(["+".join(names)] + muts[-1:])
        key = f"{PROP}:{f}:depends-on-earlier-queries:{cause}"
    if ck is not None:
        if len(_FINAL_CACHE) > 5000:
            _FINAL_CACHE.clear()
        _FINAL_CACHE[ck] = (key, smin, rec0)
    return key, smin, rec0


_FINAL_CACHE = {}


def detail_of(program, smin, finding, budget, recA):
    """(observed, required) of the finding on the minimal step list"""
    chk, f, sids = finding["check"], finding["field"], finding["sids"]
    if chk == "restore":
        d = dict(recA[sids[0]][1]["override"])
        req = d.pop("required")
        d["step"] = step_name([st for st in smin if st["sid"] == sids[0]][0], False)
        return d, req
    if chk == "oracle":
        d = dict(recA[sids[0]][1].get(f, {}))
        req = d.pop("required", None)
        d["read_by"] = step_name([st for st in smin if st["sid"] == sids[0]][0], False)
        return d, req
    if chk == "repeat":
        a, b = recA[sids[0]][0], recA[sids[1]][0]
        c = ([c for c in differing(a, b) if group_of(c) == f and not c.endswith("ids")] or [c for c in differing(a, b) if group_of(c) == f] or [f])[0]
        if c.endswith("ids"):      # object identities: run-dependent numbers are not written out
            return ({"component": c, "note": "the listed objects are not the same objects in the same order"}, "equal answers (no mutation in between)")
        return ({"component": c, "first_answer": _short(a.get(c)), "second_answer": _short(b.get(c))}, "equal answers (no mutation in between)")
    budget.replays += 1
    recB = run(program, smin, skip_history_obs=True)
    a, b = recA[sids[0]][0], recB[sids[0]][0]
    c = ([c for c in differing(a, b, skip_ids=True) if group_of(c) == f] or [f])[0]
    return ({"component": c, "with_observations": _short(a.get(c)), "mutations_only": _short(b.get(c))}, "equal reports")


CLAUSE = {
    "oracle": "a reported time / duration equals the relation equations evaluated on the circuit's current link fields under the current "
              "duration settings (a time reported after a change reflects the change)",
    "repeat": "the same query asked twice without a mutation in between gives the same answer",
    "replay": "the final report equals the final report of the same mutations replayed without the intermediate observations",
    "restore": "once an override block (the user's or plot_circuit's own) has been left -- normally or by an exception the program catches "
               "-- the duration settings in force before it are back: GlobalDurationRegistry.get_registry_at is the function installed before "
               "the block (so that times / durations reported afterwards reflect the change)",
}
FUNCTION = {"oracle": "RelationLink.get_start_time / MultiRelationLink.get_start_time (lru_cache)", "repeat": "observers (operations, duration, ...)",
            "replay": "observers (operations, copy, plot_circuit, to_stim, ...)",
            "restore": "registry_duration.temporary_override_get_registry_at"}


# ------------------------------------------------------------------------------------------------
# One history: run, analyse, classify
# ------------------------------------------------------------------------------------------------
INSTANCE_CAP = 20000
DETERMINISTIC_FAMILIES = ("K corpus", "T templates", "X exhaustive")


def coarse_key(key):
    """C03:<component>:<family>:random-family -- the class of a failure that only the seeded-random families showed: it does not embed the
    (query > mutation) combination, which goes into the witness / observed fields instead (a new seed must not create a new key)"""
    parts = key.split(":")
    if len(parts) < 3 or parts[1] == "probe":
        return key
    return f"{PROP}:{parts[1].split('(')[0]}:{parts[2]}:random-family"


def fingerprint(witness):
    """identity of ONE failing input: first 12 hex characters of the sha1 of its canonical JSON (program, history as enumerated, key)"""
    return hashlib.sha1(json.dumps(witness, sort_keys=True, default=str).encode()).hexdigest()[:12]


def witness_size(w):
    """smaller = preferred witness; explicit build programs are preferred to library circuits (which are short to write but large)"""
    return len(json.dumps(w, default=str)) + (400 if "lib" in w.get("program", {}) else 0)


class Stats:
    def __init__(self):
        self.n = {"oracle": 0, "repeat": 0, "replay": 0, "restore": 0}
        self.histories = 0
        self.runs = 0
        self.replays = 0
        self.failures = {}        # found by the deterministic families (fine-grained keys)
        self.rfailures = {}       # found by the seeded-random families (fine-grained keys; folded or made coarse at the end)
        self.skipped = {}
        self.hashes = set()
        self.samples = []
        self.failing_histories = 0
        self.unclassified = 0
        self.instances = {}       # key -> {fingerprint: record} of ALL failing inputs of the deterministic families
        self.det_inputs = 0       # inputs of the deterministic families evaluated
        self.det_skipped = 0      # ... not evaluated (deadline) or not fully classified
        self.capped = set()
        self.probe = {"fresh_checked": 0, "fresh_mismatch": 0, "plots": 0, "obs_raises": {}, "mutation_only_runs": 0}

    def skip(self, reason):
        self.skipped[reason] = self.skipped.get(reason, 0) + 1

    def fail(self, key, rec, rnd=False):
        target = self.rfailures if rnd else self.failures
        rec["_size"] = witness_size(rec["witness"])
        old = target.get(key)
        if old is None or (rec["_size"], json.dumps(rec["witness"], sort_keys=True, default=str)) < \
                (old["_size"], json.dumps(old["witness"], sort_keys=True, default=str)):
            target[key] = rec

    def all_failures(self):
        out = dict(self.rfailures)
        for k, f in self.failures.items():
            if k not in out or (f["_size"], json.dumps(f["witness"], sort_keys=True, default=str)) <= \
                    (out[k]["_size"], json.dumps(out[k]["witness"], sort_keys=True, default=str)):
                out[k] = f
        return out

    def merge(self, o):
        for k in self.n:
            self.n[k] += o.n[k]
        self.histories += o.histories
        self.runs += o.runs
        self.replays += o.replays
        self.failing_histories += o.failing_histories
        self.unclassified += o.unclassified
        self.det_inputs += o.det_inputs
        self.det_skipped += o.det_skipped
        self.capped |= o.capped
        for k, d in o.instances.items():
            mine = self.instances.setdefault(k, {})
            mine.update(d)
            if len(mine) > INSTANCE_CAP:
                for fp in sorted(mine)[INSTANCE_CAP:]:
                    del mine[fp]
                self.capped.add(k)
        for k, f in o.failures.items():
            self.fail(k, f)
        for k, f in o.rfailures.items():
            self.fail(k, f, rnd=True)
        for k, v in o.skipped.items():
            self.skipped[k] = self.skipped.get(k, 0) + v
        self.hashes |= o.hashes
        if len(self.samples) < 8:
            self.samples.extend(o.samples[:2])
        for k, v in o.probe.items():
            if isinstance(v, dict):
                for kk, vv in v.items():
                    self.probe[k][kk] = self.probe[k].get(kk, 0) + vv
            else:
                self.probe[k] += v


def count_evaluations(stats, steps, recA, recB):
    stats.n["restore"] += sum(1 for st in steps if st.get("m") != "enter" and (("m" in st) or st["sid"] in recA))
    for st in steps:
        if is_obs(st) and st["sid"] in recA:
            v = recA[st["sid"]][0]
            stats.n["oracle"] += sum(len(v[c]) if isinstance(v[c], (list, dict)) else 1 for c in v if is_time_component(c))
            if "raises" in v:
                k = f"{st['o']}:{v['raises']}"
                stats.probe["obs_raises"][k] = stats.probe["obs_raises"].get(k, 0) + 1
            if st["o"] in ("plot", "plot_nc"):
                stats.probe["plots"] += 1
    stats.n["repeat"] += sum(len(recA[steps[i]["sid"]][0]) for i, j in repeat_pairs(steps) if steps[i]["sid"] in recA)
    if recB is not None:
        stats.n["replay"] += sum(len(recA[st["sid"]][0]) for st in steps if st.get("final") and is_obs(st) and st["sid"] in recA)


def nontrivial(program, history):
    """an observation precedes a mutation, and the circuit has at least two operations"""
    seen_obs = False
    for st in history:
        if "o" in st:
            seen_obs = True
        elif seen_obs and st["m"] != "make_sub":
            return "lib" in program or base.program_stats(program)["ops"] + sum(1 for s in history if s.get("m") in ("add", "nest_sub")) >= 2
    return False


def check_history(program, history, stats, shared=None, verbose=False, max_classify=6, deterministic=False, bcache=None):
    """runs one history: once with the mutations only (unless `shared` = (records, findings) of that run is given), once with its observations;
    evaluates the three checks, classifies and records the findings.  Returns the shared mutations-only result."""
    steps = with_sids(history)
    n_base = len(program.get("items", []))
    if not valid(steps, n_base):
        stats.skip("history is not well-formed (reference to a missing item / unbalanced override)")
        return None
    has_obs = any(is_history_obs(st) for st in steps)
    stepsB = [st for st in steps if not is_history_obs(st)]
    bkey = json.dumps(strip(stepsB), sort_keys=True)
    if shared is None and bcache is not None and bkey in bcache:
        shared = bcache[bkey]          # the same mutations-only replay was already run (and recorded) for this program
    try:
        if shared is None:
            recB = run(program, stepsB, fresh_probe=True)
            stats.runs += 1
            stats.probe["mutation_only_runs"] += 1
            pv, pb = recB.pop("_probe")
            stats.probe["fresh_checked"] += 1
            if pb:
                stats.probe["fresh_mismatch"] += 1
                k = f"{PROP}:probe:own-evaluator-disagrees-with-library-on-fresh-memos"
                stats.fail(k, {"key": k, "clause": "probe: with fresh memos the library's report equals the own evaluator (if not: the oracle or "
                               "property C01 is off, not C03)", "function": "Evaluator", "witness": {"program": program, "history": strip(stepsB)},
                               "observed": pb, "required": "agreement", "replay_args": {"program": program, "history": strip(stepsB), "key": k}})
            findB = analyse(program, stepsB, recB, None)
            stats.histories += 1
            count_evaluations(stats, stepsB, recB, None)
            record(program, strip(stepsB), stepsB, findB, stats, verbose, max_classify, recB, "mutations only", deterministic)
            if deterministic:
                stats.det_inputs += 1
            if bcache is not None:
                bcache[bkey] = (recB, findB)
        else:
            recB, findB = shared
        if not has_obs:
            return recB, findB
        recA = run(program, steps)
        stats.runs += 1
    except Crash as e:
        stats.skip(str(e))
        return None
    except Invalid as e:
        stats.skip(f"history is not well-formed ({e})")
        return None
    stats.histories += 1
    count_evaluations(stats, steps, recA, recB)
    if nontrivial(program, history):
        stats.hashes.add(hashlib.blake2b(json.dumps([program, history], sort_keys=True).encode(), digest_size=8).digest())
    findings = analyse(program, steps, recA, recB)
    # a wrong time in the final report that the mutations-only replay shows identically is not due to the observations (classified there)
    inB = {(f["field"], f["sids"][0]): recB[f["sids"][0]][1].get(f["field"]) for f in findB if f["check"] == "oracle"}
    findings = [f for f in findings if not (f["check"] == "oracle" and (f["field"], f["sids"][0]) in inB and
                                            inB[(f["field"], f["sids"][0])] == recA[f["sids"][0]][1].get(f["field"]))]
    if len(stats.samples) < 2:
        stats.samples.append({"program": program, "history": history,
                              "checked": {"observations": len([s for s in steps if is_obs(s)]), "findings": [[f["check"], f["field"]] for f in findings],
                                          "final_listing": recA["f0"][0].get("operations", [])[:6] if "f0" in recA else None}})
    record(program, history, steps, findings, stats, verbose, max_classify, recA, "with observations", deterministic)
    if deterministic:
        stats.det_inputs += 1
    return recB, findB


def record(program, history, steps, findings, stats, verbose, max_classify, rec, label, deterministic=False):
    if verbose:
        print(f" run {label}:")
        for st in steps:
            if st["sid"] in rec:
                v, b = rec[st["sid"]]
                print(f"  step {st['sid']:>4} {step_name(st, False)}: " + ("WRONG " + json.dumps(b, default=str) if b else "ok") +
                      (f" raises {v['raises']}" if "raises" in v else ""))
            elif "m" in st:
                print(f"  step {st['sid']:>4} {step_name(st, False) or st['m']} {json.dumps({k: v for k, v in st.items() if k not in ('m', 'sid', 'final')})}")
    if findings:
        stats.failing_histories += 1
    for fd in findings[:max_classify]:
        budget = Budget()
        key, smin, rec0 = classify(program, steps, fd, budget)
        hist_min = strip(smin)
        witness = {"program": program, "history": hist_min, "final_report_steps_needed": [step_name(st, False) for st in smin if st.get("final")]}
        old = (stats.failures if deterministic else stats.rfailures).get(key)
        size = witness_size(witness)
        if old is None or verbose or (size, json.dumps(witness, sort_keys=True, default=str)) < (old["_size"], json.dumps(old["witness"], sort_keys=True, default=str)):
            observed, required = detail_of(program, smin, fd, budget, rec0)   # on the minimal history, so that it belongs to the recorded witness
            stats.fail(key, {"key": key, "clause": CLAUSE[fd["check"]], "function": FUNCTION[fd["check"]], "witness": witness,
                             "observed": observed, "required": required,
                             "replay_args": {"program": program, "history": hist_min, "key": key, "found_in": history}}, rnd=not deterministic)
            if verbose:
                print("  FINDING", key)
                print("     minimal steps:", [step_name(st, False) for st in smin])
                print("     observed:", json.dumps(observed, default=str), "required:", json.dumps(required, default=str))
        if deterministic:
            iw = {"program": program, "history": history, "key": key}       # the input as enumerated (not minimised) + the class it fails in
            fp = fingerprint(iw)
            slot = stats.instances.setdefault(key, {})
            if fp not in slot:
                observed, required = detail_of(program, smin, fd, budget, rec0)
                slot[fp] = {"key": key, "witness": iw, "observed": observed, "required": required,
                            "minimal_history": hist_min, "final_report_steps_needed": witness["final_report_steps_needed"]}
        stats.replays += budget.replays
    stats.unclassified += max(0, len(findings) - max_classify)
    if deterministic and len(findings) > max_classify:
        stats.det_skipped += 1


# ------------------------------------------------------------------------------------------------
# Enumeration
# ------------------------------------------------------------------------------------------------
def reg(k, q, key, rel=None, **kw):
    it = op(k, q, rel=rel, **kw)
    it["reg"] = key
    return it


def core_programs():
    a, b = 0, 1
    return [
        {"name": "chain", "reg": {"a": 1.0}, "items": [reg("Wait", a, "a"), op("Rx180", a), op("DispersiveMeasure", a)]},
        {"name": "barrier-first-repeated-sub", "reg": {"a": 1.0},
         "items": [reg("Wait", a, "a"), sub([op("Barrier", [a, b]), op("Rx180", a), op("DispersiveMeasure", b)], 2), op("Ry90", b)]},
        {"name": "reg-in-repeated-sub-then-barrier", "reg": {"a": 2.0},
         "items": [op("Wait", a, d=5.0), sub([op("Rx180", a), reg("Wait", b, "a")], 3), op("Barrier", [a, b]), op("DispersiveMeasure", a)]},
        {"name": "nested", "reg": {"a": 0.0},
         "items": [op("Rx180", a), sub([reg("Wait", a, "a"), sub([op("Barrier", [a, b]), op("Ry90", b)], 2), op("CPhase", [a, b])], 2),
                   op("DispersiveMeasure", b)]},
        {"name": "global-durations-joined-end", "reg": {},
         "items": [op("DispersiveMeasure", a), op("Rx180", a, rel=[0, "F"]), op("Wait", b, d=5.0, rel=[0, "E"]), op("Barrier", [a, b]),
                   op("CPhase", [a, b])]},
        {"name": "reg-joined-end-before-first", "reg": {"a": 5.0, "b": 1.0},
         "items": [op("Rx180", a), reg("Wait", b, "a", rel=[0, "E"]), op("Reset", b), reg("VirtualVacant", a, "b", rel=[2, "S"])]},
    ]


def reduced_alphabet(program):
    """concrete steps for the exhaustive family (uids are assigned by `concretise`)"""
    a, b = 0, 1
    obs = [O(k) for k in OBS_KINDS if k != "plot_nc"]     # the non-compact drawing is a plain reading query (covered by T / R)
    mut = [M("add", item=op("Rx180", a)),
           M("add_sub", item=sub([op("Barrier", [a, b]), op("Rx180", a)], 2)),
           M("apply_modifiers"), M("flatten"),
           M("set_reg", key="a", value=5.0), M("enter", G="A"), M("leave")]
    return obs, mut


def concretise(program, seq):
    """expands abstract add_sub steps into make_sub + nest_sub, assigns uids"""
    n = len(program.get("items", []))
    out = []
    for st in seq:
        if st.get("uid") is not None:          # already concrete
            out.append(dict(st))
            n = max(n, st["uid"] + 1)
        elif st.get("m") == "add":
            out.append(dict(st, uid=n))
            n += 1
        elif st.get("m") == "add_sub":
            out.append(M("make_sub", uid=n, item=st["item"]))
            for k in st.get("obs_before", []):
                out.append(O(k, on=n))
            out.append(M("nest_sub", uid=n))
            n += 1
        else:
            out.append(dict(st))
    return out


def balanced(seq):
    d = 0
    for st in seq:
        if st.get("m") == "enter":
            d += 1
        elif st.get("m") == "leave":
            if d == 0:
                return False
            d -= 1
    return True


def exhaustive_jobs(programs, maxlen):
    """all step sequences of length <= maxlen over the reduced alphabet, grouped by (program, mutation sequence)"""
    jobs = []
    for p in programs:
        obs, mut = reduced_alphabet(p)
        for nm in range(0, maxlen + 1):
            for ms in itertools.product(range(len(mut)), repeat=nm):
                mseq = [mut[i] for i in ms]
                if not balanced(mseq):
                    continue
                hists = []
                for no in range(0, maxlen - nm + 1):
                    if no == 0:
                        continue
                    for os_ in itertools.product(range(len(obs)), repeat=no):
                        for pos in itertools.combinations(range(nm + no), no):
                            h, mi, oi = [], 0, 0
                            for x in range(nm + no):
                                if x in pos:
                                    h.append(obs[os_[oi]])
                                    oi += 1
                                else:
                                    h.append(mseq[mi])
                                    mi += 1
                            hists.append(h)
                jobs.append({"family": "X exhaustive", "program": p, "mutations": mseq, "histories": hists})
    return jobs


ADD_ITEMS = [lambda r: op("Rx180", r.choice([0, 1, 2])), lambda r: op("DispersiveMeasure", r.choice([0, 1])),
             lambda r: op("Barrier", r.choice([[0, 1], [0, 1, 2], [1]])), lambda r: op("CPhase", r.choice([[0, 1], [1, 2]])),
             lambda r: op("Wait", r.choice([0, 1]), d=r.choice([0.0, 1.0, 2.0, 5.0]), ch=r.choice(["ALL", "MW", "FL"])),
             lambda r: reg("Wait", r.choice([0, 1]), r.choice(["a", "b"])), lambda r: op("Reset", r.choice([0, 2])),
             lambda r: reg("VirtualTwoQubitVacant", [0, 1], "b"), lambda r: op("VirtualPark", 1)]
SUB_ITEMS = [lambda r: sub([op("Barrier", [0, 1]), op("Rx180", 0), op("DispersiveMeasure", 1)], r.choice([1, 2, 3])),
             lambda r: sub([reg("Wait", 0, "a"), op("DispersiveMeasure", 0)], r.choice([2, 3])),
             lambda r: sub([op("Rx180", 0), sub([op("Barrier", [0, 1]), op("Ry90", 1)], 2), reg("Wait", 1, "b")], r.choice([1, 2])),
             lambda r: sub([op("CPhase", [0, 1]), op("Barrier", [0, 1, 2]), op("Rym90", 2)], r.choice([2, 3])),
             lambda r: sub([op("Wait", 1, d=0.0), op("Hadamard", 1), op("Wait", 0, d=5.0, rel=[1, "E"])], r.choice([1, 2]))]


OBS_WEIGHTED = [k for k in OBS_KINDS for _ in range(1 if k.startswith("plot") else 3)] + ["plot_bad", "plot_nc_bad"]   # drawings are ~50x as expensive as the rest


def random_history(rng, program, maxlen):
    n0 = len(program.get("items", []))
    n = n0
    subs = [i for i, it in enumerate(program.get("items", [])) if it["k"] == "sub"]
    L = rng.randint(2, maxlen)
    seq, depth, count = [], 0, 0
    p_obs = rng.choice([0.35, 0.5, 0.65])
    while count < L:
        if rng.random() < p_obs:
            seq.append(O(rng.choice(OBS_WEIGHTED)))
            count += 1
            continue
        m = rng.choice(["add", "add", "add_sub", "add_sub", "apply_modifiers", "apply_modifiers", "flatten", "set_reg", "set_reg", "set_reg",
                        "enter", "enter", "leave", "leave", "add_to_sub", "override_raise"])
        if m == "leave" and depth == 0:
            m = "enter"
        if m == "add_to_sub" and not subs:
            m = "add_sub"
        if m == "add":
            it = rng.choice(ADD_ITEMS)(rng)
            if n > 0 and "lib" not in program and rng.random() < 0.5:
                it["rel"] = [rng.randrange(n), rng.choice("FSE")]
            seq.append(M("add", item=it, uid=n))
            n += 1
        elif m == "add_sub":
            seq.append(M("make_sub", uid=n, item=rng.choice(SUB_ITEMS)(rng)))
            if rng.random() < 0.5 and count + 1 < L:
                seq.append(O(rng.choice(["operations", "times", "duration", "plot", "plot_nc", "copy", "stim"]), on=n))
                count += 1
            seq.append(M("nest_sub", uid=n))
            subs.append(n)
            n += 1
        elif m == "add_to_sub":
            seq.append(M("add_to_sub", sub=rng.choice(subs), item=rng.choice(ADD_ITEMS[:7])(rng)))
        elif m == "set_reg":
            seq.append(M("set_reg", key=rng.choice(["a", "a", "b"]), value=rng.choice([0.0, 0.5, 1.0, 3.0, 5.0])))
        elif m == "enter":
            seq.append(M("enter", G=rng.choice(["A", "B"])))
            depth += 1
        elif m == "leave":
            seq.append(M("leave", by="exception") if rng.random() < 0.5 else M("leave"))
            depth -= 1
        elif m == "override_raise":
            st = M("override_raise", G=rng.choice(["A", "B"]), how=rng.choice(["raise", "plot_unknown_channel", "raise"]))
            if st["how"] == "plot_unknown_channel":
                st["compact"] = rng.random() < 0.5
            elif rng.random() < 0.4:
                st["inner"] = "B" if st["G"] == "A" else "A"
                st["how"] = rng.choice(["raise", "inner_caught"])
            seq.append(st)
        else:
            seq.append(M(m))
        count += 1
    # references made before they exist cannot happen; relations only point to earlier uids
    return seq


def with_registry(rng, program):
    """gives some fixed-duration items of a random program a registry-provided duration"""
    p = json.loads(json.dumps(program))
    p.pop("post", None)

    def rec(items):
        for it in items:
            if it["k"] == "sub":
                rec(it["items"])
            elif (it["k"] in base.SQ_FIXED or it["k"] in ("TwoQubitOperation", "VirtualTwoQubitVacant")) and rng.random() < 0.6:
                it["reg"] = rng.choice(["a", "b"])
                it.pop("d", None)
    rec(p["items"])
    p["reg"] = {k: rng.choice([0.0, 1.0, 2.0, 5.0]) for k in ("a", "b") if rng.random() < 0.8}
    return p


def small_programs():
    """every program of <= 2 top-level items over a reduced alphabet (each relation to the earlier item), plus <= 3 with a sub-circuit"""
    a, b = 0, 1
    alpha = [reg("Wait", a, "a"), op("Wait", a, d=2.0, ch="MW"), op("Wait", b, d=0.0, ch="FL"), op("Wait", b, d=5.0), op("Rx180", a),
             op("CPhase", [a, b]), op("DispersiveMeasure", a), op("Barrier", [a, b])]
    progs = []
    for x in alpha:
        progs.append({"reg": {"a": 1.0}, "items": [dict(x)]})
        for y in alpha:
            for rel in [None] + [[0, t] for t in "FSE"]:
                it = dict(y)
                if rel:
                    it["rel"] = rel
                progs.append({"reg": {"a": 1.0}, "items": [dict(x), it]})
    bodies = [[op("Barrier", [a, b]), op("Rx180", a)], [reg("Wait", a, "a"), op("DispersiveMeasure", a)], [op("Rx180", b), op("Wait", a, d=1.0)]]
    for x in alpha:
        for body in bodies:
            for reps in (1, 2, 3):
                for tail in (None, op("Rx180", a), op("Barrier", [a, b]), op("DispersiveMeasure", b, rel=[1, "E"])):
                    items = [dict(x), sub([dict(i) for i in body], reps)] + ([dict(tail)] if tail else [])
                    progs.append({"reg": {"a": 1.0}, "items": items})
    return progs


def library_programs(thorough):
    cycles = [1, 2, 3, 4, 5, 6] if thorough else [2, 5]
    states = ["01", "010"] if thorough else ["01"]
    return [{"lib": "repcode_simplified", "states": s, "cycles": c} for s in states for c in cycles]


TEMPLATES = [
    # the flows named in the property statement, on every program
    [O("times"), M("set_reg", key="a", value=5.0), O("times")],
    [O("duration"), M("set_reg", key="a", value=0.5)],
    [O("times"), M("enter", G="A"), O("times"), M("leave")],
    [M("enter", G="B"), O("held_times"), M("leave"), O("duration")],
    [M("enter", G="A"), O("plot")],
    [M("enter", G="A"), O("plot_nc"), M("leave")],
    [M("apply_modifiers"), M("enter", G="A"), O("plot")],
    [O("operations"), M("apply_modifiers")],
    [O("plot"), M("apply_modifiers")],
    [O("duration"), O("operations"), O("duration")],
    [O("held_times"), O("operations"), O("held_times")],
    [O("copy"), M("flatten")],
    [O("copy")],
    [O("held_times"), O("plot"), O("held_times")],
    [O("duration"), M("flatten"), O("duration")],
    [M("apply_modifiers"), M("set_reg", key="a", value=0.5)],
    [M("apply_modifiers"), O("acq"), M("flatten")],
    # override blocks left by an exception the program catches (the user's, nested ones, plot_circuit's own compact override)
    [M("enter", G="A"), M("leave", by="exception")],
    [M("enter", G="A"), O("times"), M("leave", by="exception"), O("times")],
    [M("enter", G="B"), O("plot_nc_bad"), M("leave", by="exception"), O("duration")],
    [M("enter", G="A"), M("enter", G="B"), M("leave", by="exception"), O("held_times"), M("leave", by="exception")],
    [M("enter", G="A"), M("enter", G="B"), M("leave", by="exception"), M("leave")],
    [O("plot_bad")],
    [M("enter", G="A"), O("plot_bad"), O("times")],
    [M("override_raise", G="A", how="raise")],
    [M("override_raise", G="B", how="plot_unknown_channel", compact=False), O("times")],
    [M("override_raise", G="A", how="plot_unknown_channel", compact=True)],
    [M("override_raise", G="A", inner="B", how="raise"), O("duration")],
    [M("override_raise", G="A", inner="B", how="inner_caught")],
    [M("enter", G="A"), M("override_raise", G="B", how="raise"), O("times"), M("leave")],
    [O("acq"), M("add", item=op("DispersiveMeasure", 0), uid=None), O("acq")],
    [O("stim"), M("add", item=op("Rx180", 1), uid=None), O("stim")],
    [M("apply_modifiers")],
    [M("apply_modifiers"), M("flatten")],
    [O("times"), M("apply_modifiers"), O("times"), M("flatten")],
]


# thorough tier only (the quick tier's deterministic inputs, and with them its fingerprints, stay as they are)
THOROUGH_TEMPLATES = [
    [O("held_times"), O("plot_bad")],
    [O("held_times"), O("operations"), O("plot_bad")],
    [M("apply_modifiers"), O("plot_bad"), M("flatten")],
    [O("operations"), M("apply_modifiers")],
]


def template_histories(program, thorough=False):
    out = []
    n = len(program.get("items", []))
    for t in TEMPLATES + (THOROUGH_TEMPLATES if thorough else []):
        h, k = [], n
        for st in t:
            st = json.loads(json.dumps(st))
            if st.get("m") == "add":
                st["uid"] = k
                k += 1
            h.append(st)
        out.append(h)
    return out


def load_corpus(thorough=False):
    path = os.path.join(os.path.dirname(os.path.abspath(__file__)), "c03_corpus.json")
    try:
        with open(path) as fh:
            d = json.load(fh)
            return d["inputs"] + (d.get("thorough_inputs", []) if thorough else [])
    except (OSError, ValueError, KeyError):
        return []


def make_jobs(tier, seed):
    thorough = tier == "thorough"
    rng = random.Random(seed * 104729 + (1 if thorough else 0))
    maxlen = 6 if thorough else 5
    cores = core_programs()
    jobs, summary = [], []
    # K: corpus of inputs that showed a witness class before (run first)
    corpus = load_corpus(thorough)
    kj = [{"family": "K corpus", "program": c["program"], "mutations": None, "histories": [c["history"]]} for c in corpus]
    summary.append(f"K corpus: {len(kj)} recorded (program, history) inputs, one per witness class seen during development (bounded/c03_corpus.json)")
    # X: exhaustive histories over the reduced alphabet on the core programs
    xplan = [(cores[1:4], 4), (cores[:1] + cores[4:], 3)] if thorough else [(cores[1:2] + cores[3:4], 3)]
    for xprogs, xlen in xplan:
        xj = exhaustive_jobs(xprogs, xlen)
        jobs += xj
        summary.append(f"X exhaustive: every history of <= {xlen} steps over the reduced step alphabet (8 observations, 7 mutations) on the core programs "
                       f"{[p['name'] for p in xprogs]}: {sum(len(j['histories']) + 1 for j in xj)} histories")
    # T: templates on small programs
    sp = small_programs()
    tp = sp if thorough else sp[::3]        # independent of the seed: the deterministic families are the same in every run of a tier
    tj = [{"family": "T templates", "program": p, "mutations": None, "histories": template_histories(p, thorough)} for p in tp + cores + library_programs(thorough)]
    jobs += tj
    summary.append(f"T templates: {len(TEMPLATES) + (len(THOROUGH_TEMPLATES) if thorough else 0)} named flows on {len(tj)} programs ({'all' if thorough else 'every third of the'} {len(sp)} programs of <= 2 top-level "
                   f"items over a reduced alphabet x every relation and 3-item programs with a sub-circuit x repetitions 1..3; core programs; library "
                   f"repetition-code circuits)")
    # R: random programs x random histories
    nprog = 6000 if thorough else 500
    per = 8 if thorough else 4
    rj = []
    for _ in range(nprog):
        which = rng.random()
        if which < 0.55:
            p = with_registry(rng, base.random_program(rng))
        elif which < 0.85:
            p = json.loads(json.dumps(rng.choice(sp)))
        else:
            p = json.loads(json.dumps(rng.choice(cores)))
        rj.append({"family": "R random", "program": p, "mutations": None, "histories": [random_history(rng, p, maxlen) for _ in range(per)]})
    jobs += rj
    summary.append(f"R random: {nprog} programs (seeded random programs of 2..7 items over all operation kinds with registry durations injected, small and core "
                   f"programs) x {per} seeded random histories of 2..{maxlen} steps over the full step alphabet")
    # L: library circuits x random histories
    lj = []
    for p in library_programs(thorough):
        lj.append({"family": "L library", "program": p, "mutations": None,
                   "histories": [random_history(rng, p, maxlen) for _ in range(30 if thorough else 8)]})
    jobs += lj
    summary.append(f"L library: {len(lj)} repetition-code circuits x seeded random histories")
    split = []
    for j in jobs:
        hs = j["histories"]
        size = 24 if j["mutations"] is not None else 48     # template jobs stay whole: their histories share mutations-only replays
        for n in range(0, max(len(hs), 1), size):
            split.append(dict(j, histories=hs[n:n + size], first=(n == 0)))
    jobs = split
    by_family = {}
    for j in jobs:
        by_family.setdefault(j["family"], []).append(j)
    for lst in by_family.values():
        rng.shuffle(lst)
    # the deterministic families first (their failing inputs are reported one by one: they should all be reached), then the samples
    ordered = [dict(j, first=True) for j in kj]
    det = [by_family[f] for f in by_family if f in DETERMINISTIC_FAMILIES]
    rnd = [by_family[f] for f in by_family if f not in DETERMINISTIC_FAMILIES]
    for fams in (det, rnd):
        for group in itertools.zip_longest(*fams):
            ordered.extend(j for j in group if j is not None)
    return ordered, summary


# ------------------------------------------------------------------------------------------------
# Jobs
# ------------------------------------------------------------------------------------------------
_DEADLINE = [None]


def run_job(job):
    stats = Stats()
    base.L()
    program = {k: v for k, v in job["program"].items() if k != "name"}
    det = job.get("family") in DETERMINISTIC_FAMILIES
    try:
        shared = None
        if job["mutations"] is not None:
            # the mutations-only replay is shared by every interleaving of the same mutation sequence
            h0 = concretise(program, job["mutations"])
            if _DEADLINE[0] is not None and time.time() > _DEADLINE[0]:
                stats.skip("time budget of the tier exhausted")
                stats.det_skipped += (len(job["histories"]) + 1) if det else 0
                return stats
            if job.get("first", True):
                shared = check_history(program, h0, stats, deterministic=det)     # the mutations-only history is itself a history (checked once)
            else:
                try:
                    s0 = with_sids(h0)
                    r0 = run(program, s0)
                    stats.runs += 1
                    shared = (r0, analyse(program, s0, r0, None))
                except (Crash, Invalid):
                    shared = None
            if shared is None:
                return stats
        bcache = {} if shared is None else None
        for h in job["histories"]:
            if _DEADLINE[0] is not None and time.time() > _DEADLINE[0]:
                stats.skip("time budget of the tier exhausted")
                stats.det_skipped += 1 if det else 0
                continue
            h = concretise(program, h)
            check_history(program, h, stats, shared=shared, deterministic=det, bcache=bcache)
    except Exception as e:  # harness problem: make it visible
        stats.det_skipped += 1 if det else 0
        stats.skip("harness error: " + "".join(traceback.format_exception_only(type(e), e)).strip()[:300] +
                   " @ " + traceback.format_tb(e.__traceback__)[-1].strip()[:200])
    return stats


def _init_worker(deadline):
    _DEADLINE[0] = deadline
    base.L()
    span_definition()
    warnings.simplefilter("ignore")


# ------------------------------------------------------------------------------------------------
# Main
# ------------------------------------------------------------------------------------------------
def main(argv=None):
    args = common.parse_args(argv)
    if args.replay:
        return replay(args.replay)
    res = common.Result(PROP)
    base.L()
    jobs, summary = make_jobs(args.tier, args.seed)
    budget = 520.0 if args.tier == "thorough" else 48.0
    # maintenance only (tools/adopt_fingerprints.py): a longer deadline so that the deterministic families complete on a loaded machine
    budget = float(os.environ.get("VERIF_ADOPT_BUDGET_S", budget))
    deadline = time.time() + budget
    total = Stats()
    nproc = min(16, os.cpu_count() or 1)
    ctx = mp.get_context("fork")
    with ctx.Pool(nproc, initializer=_init_worker, initargs=(deadline,)) as pool:
        for st in pool.imap_unordered(run_job, jobs, chunksize=2):
            total.merge(st)

    n = total.n
    res.evaluations = sum(n.values())
    res.distinct = total.hashes
    res.exhaustive = not any("time budget" in k for k in total.skipped)
    maxlen = 6 if args.tier == "thorough" else 5
    res.rule = ("histories = base build program + <= %d steps interleaving mutations {add operation (relation none / FOLLOWED_BY / JOINED_START / JOINED_END to an "
                "earlier item), add sub-circuit (make, optionally observe it, nest), add into a nested sub-circuit, apply_modifiers, flatten, "
                "DurationRegistry.set_registry_at, enter / leave temporary_override_get_registry_at with tables A %s / B %s (left normally or by an exception "
                "caught outside the block; self-contained `with` blocks left by a plain raise or by plot_circuit raising for an unknown channel, also "
                "nested)} with observations {compact / non-compact plot_circuit with an unknown channel (raises), operations, "
                "start/end/duration of the listed operations, of held references, circuit duration, get_acquisition_indices, plot_circuit compact / non-compact "
                "(Agg), to_stim, copy of the structure}; then the fixed final report [operations, times, held times, duration, acquisition indices, to_stim, copy "
                "(+ its reports), apply_modifiers, operations, times]. Each history runs in a fresh state (fresh circuit and registry, both lru_caches cleared "
                "once before the first step, never inside) with its observations and once with the mutations only. Families: %s. Exhaustive = the X family "
                "was enumerated completely (R / L are samples). Non-trivial = an observation precedes a mutation and the circuit has >= 2 operations; "
                "distinct = distinct (program, history)." % (maxlen, GLOBALS["A"], GLOBALS["B"], "; ".join(summary)))
    res.samples = total.samples[:6]
    bound = f"{total.histories} histories ({total.runs} runs, {total.replays} diagnosis replays) of {len(jobs)} jobs, tier {args.tier}, seed {args.seed}"
    res.stand_ins = [
        {"function": "RelationLink.get_start_time / MultiRelationLink.get_start_time / start_time / end_time / duration (operations, composites, circuit, copy)",
         "contract": "clause 'a time reported after the circuit or a duration setting changed reflects the change' and 'reports depend only on the current "
                     "structure and the current duration settings': every start / end / duration reported by any observation of the history and by the final "
                     "report (also of the copy and of the unrolled version) equals the own evaluation of the relation equations over the link fields under the "
                     "harness' own model of registry values and global overrides", "bound": bound + " (per reported number)", "evaluations": n["oracle"]},
        {"function": "DeclarativeCircuit.operations / duration / get_acquisition_indices / to_stim / CircuitCompositeOperation.copy / plot_circuit",
         "contract": "clause 'never on which queries, drawings or exports were made earlier': the same query asked twice with only other queries in between "
                     "returns the same answer (listing identity, canonical listing, relation links, composites, times, indices, stim text, copy)",
         "bound": bound + " (per compared component)", "evaluations": n["repeat"]},
        {"function": "operations / copy / apply_modifiers / flatten / add (nesting) after earlier observations",
         "contract": "clause 'reading the operation listing or plotting before copying, nesting or applying modifiers does not change their result' and the "
                     "quantifier 'compared against the same mutations replayed without the intermediate observations': every component of the final report "
                     "(listing, relations, composites, times, duration, acquisition indices, stim text, copy's reports, unrolled version's reports) is equal "
                     "with and without the history's observations", "bound": bound + " (per compared component)", "evaluations": n["replay"]},
    ]
    res.stand_ins.append(
        {"function": "registry_duration.temporary_override_get_registry_at (user blocks, nested blocks, plot_circuit's own compact override)",
         "contract": "clause 'a time reported after a duration setting changed reflects the change', for LEAVING an override: after every step "
                     "(override left normally; left by an exception thrown into the context manager / raised inside a real `with` block and caught "
                     "outside, also nested, also by plot_circuit(channel_order=[unknown]) raising ValueError inside the block; compact plot_circuit "
                     "raising inside its own override; every other query and mutation) GlobalDurationRegistry.get_registry_at is the function object "
                     "that was installed before the block / step; the times and durations reported afterwards are judged by the oracle check under "
                     "the harness' own model, in which the left override is no longer in force",
         "bound": bound + " (per step)", "evaluations": n["restore"]})
    pr = total.probe
    res.probes = [
        {"assumption": f"with fresh memos (caches cleared after the run) the library's report equals the own evaluator: {pr['fresh_checked']} end states, "
                       f"{pr['fresh_mismatch']} mismatches", "ok": pr["fresh_mismatch"] == 0},
        {"assumption": f"a composite's duration spans '{span_definition()}' ('all' = latest end - earliest start over all contained operations, 'legacy' = "
                       f"relation-leaf ends - first-level starts), established on a canary circuit; the oracle follows it, which of the two is right is "
                       f"judged by C04, not here", "ok": span_definition() in ("all", "legacy")},
        {"assumption": f"observations really reached the library: {pr['plots']} drawings (Agg); observations that raised are recorded and compared as such: "
                       f"{pr['obs_raises']}", "ok": True},
        {"assumption": f"{total.failing_histories} of {total.histories} histories show at least one finding; findings beyond the first 6 of one history are not "
                       f"classified ({total.unclassified})", "ok": True},
        {"assumption": "sub-circuits are nested through DeclarativeCircuit.add (which copies them); relations of operations added by the history point to "
                       "top-level items; times of 'held references' are read from the objects add returned, never through private fields", "ok": True},
    ]
    # named witness of the known defect "plain build -> apply_modifiers -> read" on the library's repetition-code circuit
    try:
        lp = {"lib": "repcode_simplified", "states": "01", "cycles": 5}
        ls = with_sids([M("apply_modifiers")])
        lr = run(lp, ls)
        lbad = lr[FIRST_TIMES][1].get("times")
        res.probes.append({"assumption": "informational: construct_repetition_code_circuit_simplified(initial_state 01, qec_cycles=5) -> apply_modifiers() -> "
                                         "for o in circuit.operations: o.start_time (fresh process state, no other query): " +
                                         (f"WRONG time reported: {json.dumps(lbad)} (class C03:times:stale-memo:listing:memo-filled-during-construction)"
                                          if lbad else "all reported times agree with the relation equations"), "ok": True})
    except Exception as e:  # noqa
        res.probes.append({"assumption": f"informational: library witness could not be evaluated ({type(e).__name__})", "ok": True})
    # failures that only the seeded-random families showed: folded into the fine-grained key if the deterministic families produced the
    # same one in this run, else reported under the coarse, seed-stable key (the fine class goes into the witness / observed fields)
    coarse = {}
    for fk in sorted(total.rfailures):
        f = total.rfailures[fk]
        if fk in total.failures:
            total.fail(fk, f)
            continue
        ck = coarse_key(fk)
        if ck == fk:
            total.fail(fk, f)
            continue
        c = dict(f, key=ck, witness=dict(f["witness"], fine_class=fk),
                 observed={"fine_class": fk, "detail": f["observed"]}, replay_args=dict(f["replay_args"], key=ck, fine_key=fk))
        c["_size"] = witness_size(c["witness"])
        old = coarse.get(ck)
        classes = sorted(set((old or {}).get("fine_classes_seen_in_this_run", [])) | {fk})
        if old is None or (c["_size"], json.dumps(c["witness"], sort_keys=True, default=str)) < (old["_size"], json.dumps(old["witness"], sort_keys=True, default=str)):
            coarse[ck] = c
        coarse[ck]["fine_classes_seen_in_this_run"] = classes
    for ck, c in coarse.items():
        total.failures[ck] = c
    # every failing input of the deterministic families, one by one (fingerprints in the failure records, witnesses in a side file)
    harness_err = [k for k in total.skipped if k.startswith("harness error")]
    all_reached = total.det_skipped == 0 and not harness_err
    side, side_bytes = {}, 0
    for key in sorted(set(total.failures) | set(total.instances)):
        inst = total.instances.get(key, {})
        complete = all_reached and key not in total.capped
        for fp in sorted(inst):
            blob = len(json.dumps(inst[fp], default=str))
            if side_bytes + blob > 50_000_000:
                complete = False
                continue
            side_bytes += blob
            side[fp] = inst[fp]
        if key in total.failures:
            total.failures[key]["instances"] = {"complete": complete, "count": len(inst), "fps": sorted(inst)}
    res.probes.append({"assumption": f"per-input reporting: {total.det_inputs} inputs of the deterministic families (K corpus, T templates, X exhaustive; the "
                                     f"same in every run of this tier, independent of the seed) were evaluated, {total.det_skipped} were not reached / not "
                                     f"fully classified; {len(side)} failing (input, key) instances written to the side file", "ok": all_reached})
    if args.out:
        ipath = (args.out[:-5] if args.out.endswith(".json") else args.out) + ".instances.json"
        os.makedirs(os.path.dirname(os.path.abspath(ipath)), exist_ok=True)
        with open(ipath, "w") as fh:
            json.dump(side, fh, indent=0, sort_keys=True, default=str)
    for f in total.failures.values():
        f.pop("_size", None)
    res.failures = total.failures
    res.skipped = total.skipped
    out = res.write(args.out)
    print(f"{PROP} bounded: {out['evaluations']} evaluations, {total.histories} histories, {out['distinct_nontrivial']} distinct non-trivial, "
          f"{len(out['failures'])} failure keys, skipped {out['skipped']}, {out['wall_s']} s")
    for f in out["failures"]:
        print("  FAILURE", f["key"])
    harness = [k for k in out["skipped"] if k.startswith("harness error")]
    if harness or total.histories == 0:
        print("HARNESS ERROR:", harness or "no history was evaluated")
        return 2
    return 0


def replay(path):
    rec, a = common.load_replay(path)
    key = a.get("key") or rec.get("key") or rec.get("id") or rec.get("obligation")
    if "program" not in a and isinstance(rec.get("witness"), dict) and "program" in rec["witness"]:
        a = dict(rec["witness"], **{k: v for k, v in a.items() if k not in rec["witness"]})
    program, history = a["program"], a["history"]
    single = "found_in" not in a      # the record of ONE input (instances side file): just this input is re-evaluated
    print(f"replaying {key}" + (" (single input)" if single else " (class witness)"))
    print(" program:", json.dumps(program))
    print(" history:", json.dumps(history))
    stats = Stats()
    base.L()
    check_history(program, history, stats, verbose=True, max_classify=50)
    def hit():
        now = stats.all_failures()
        if key in now:
            return now[key]
        if key.endswith(":random-family"):      # coarse key: any fine class of that component / family (the recorded one first)
            for fk in [a.get("fine_key")] + sorted(now):
                if fk in now and coarse_key(fk) == key:
                    return now[fk]
        return None
    print(" failure keys now:", sorted(stats.all_failures()))
    if hit() is None and a.get("found_in"):
        print(" not on the minimal history; trying the history it was found in")
        check_history(program, a["found_in"], stats, verbose=True, max_classify=50)
        print(" failure keys now:", sorted(stats.all_failures()))
    if hit() is not None:
        f = hit()
        print(" observed:", json.dumps(f["observed"], default=str))
        print(" required:", json.dumps(f["required"], default=str))
        print(f"VIOLATION property={PROP} replay={path}")
        return 1
    print(" the recorded failure does not reproduce")
    return 0


if __name__ == "__main__":
    sys.exit(main())
