#!/usr/bin/env python
"""Bounded run-time stand-in for property C07 (acquisition indices enumerate measurements exactly, in order).

Real circuits are built through the public API from JSON "build programs" (and through the library's own
constructors), modifiers are applied, and every clause of the property statement is evaluated as a
post-condition with an oracle that does not use the code under test:

* the listing of the circuit is an own breadth-first walk over the pointer fields of the circuit graph;
* the index a measurement must have is its position in that listing (circuit level) / its position among the
  listed measurements of the same qubit (qubit level);
* the measurement record is read from the exported program with Stim's own API (flattened instructions);
* the filters must return the indices of the matching measurements of the listing (qubit / tag read from the
  dataclass fields of the measurement);
* start times are evaluated with an own evaluator of the relation equations over the link FIELDS under an
  explicit duration table (the library's start_time is only compared in a probe, never used as the oracle).

Reading order (decided consciously): the own pointer walk runs FIRST (it has no side effect); then
`circuit.operations` is read once (this hands the relation link of a sub-circuit down to its relation-less
first-level operations); the own time evaluator runs AFTER that read, so that the link fields it evaluates are
the ones every reader of the circuit sees.

See bounded/README.md for the command line and the output format.
"""
import os
import sys

os.environ.setdefault("MPLBACKEND", "Agg")
os.environ.setdefault("TQDM_DISABLE", "1")

import contextlib
import hashlib
import io
import itertools
import json
import multiprocessing as mp
import random
import time
import traceback
import warnings

sys.path.insert(0, os.path.dirname(os.path.dirname(os.path.abspath(__file__))))
from bounded import common  # noqa: E402

PROP = "C07"
EPS = 1e-9

# global duration settings (exact binary fractions); "file" = the repository's configuration file
GLOBALS = {
    "file": None,
    "A": {"READOUT": 5.0, "MICROWAVE": 3.0, "FLUX": 4.0, "RESET": 7.0},
    "B": {"READOUT": 1.0, "MICROWAVE": 0.5, "FLUX": 0.25, "RESET": 1.5},
}

SQ_GLOBAL = ["Reset", "Identity", "Hadamard", "Rx180", "Rx90", "Rxm90", "Ry180", "Ry90", "Rym90", "Rx180ef",
             "VirtualPhase", "Rphi90", "VirtualPark"]
SQ_FIXED = ["Wait", "SingleQubitOperation", "VirtualVacant", "VirtualEmpty"]
TQ_KINDS = ["CPhase", "VirtualTwoQubitVacant", "TwoQubitOperation", "TwoQubitVirtualPhase"]
ALL_KINDS = SQ_GLOBAL + SQ_FIXED + TQ_KINDS + ["DispersiveMeasure", "Barrier"]
CH = {"ALL": "ALL", "MW": "MICROWAVE", "FL": "FLUX", "RO": "READOUT"}
RELT = {"F": "FOLLOWED_BY", "S": "JOINED_START", "E": "JOINED_END"}
TAGS = ["", "a", "b"]
ABSENT_QUBIT = 97
ABSENT_TAG = "zz-absent"
MEASURE_NAMES = {"M", "MZ", "MX", "MY", "MR", "MRX", "MRY", "MRZ"}

S17_CHAIN = ["D9", "X4", "D8", "X3", "D7", "Z3", "D4", "Z1", "D5", "Z4", "D6", "Z2", "D3", "X2", "D2", "X1", "D1"]


# ------------------------------------------------------------------------------------------------
# Library access (imported once, before the pool forks)
# ------------------------------------------------------------------------------------------------
class _L:
    ready = False


def L():
    if _L.ready:
        return _L
    warnings.simplefilter("ignore")
    import numpy as np
    import stim
    from qce_circuit.language.declarative_circuit import DeclarativeCircuit
    from qce_circuit.structure import circuit_operations as co
    from qce_circuit.structure import registry_duration as rd
    from qce_circuit.structure.intrf_circuit_operation import RelationLink, RelationType, QubitChannel
    from qce_circuit.structure.intrf_acquisition_operation import AcquisitionTag, IAcquisitionOperation
    from qce_circuit.structure.registry_repetition import FixedRepetitionStrategy
    from qce_circuit.addon_stim.factory_manager import to_stim
    _L.np, _L.stim = np, stim
    _L.DeclarativeCircuit, _L.co, _L.rd = DeclarativeCircuit, co, rd
    _L.RelationLink, _L.RelationType, _L.QubitChannel = RelationLink, RelationType, QubitChannel
    _L.AcquisitionTag, _L.IAcquisitionOperation = AcquisitionTag, IAcquisitionOperation
    _L.FixedRepetitionStrategy = FixedRepetitionStrategy
    _L.to_stim = staticmethod(to_stim)
    warnings.simplefilter("ignore")
    _L.ready = True
    return _L


@contextlib.contextmanager
def quiet():
    buf_o, buf_e = io.StringIO(), io.StringIO()
    with warnings.catch_warnings():
        warnings.simplefilter("ignore")
        with contextlib.redirect_stdout(buf_o), contextlib.redirect_stderr(buf_e):
            yield


def table_of(gname):
    lib = L()
    if GLOBALS[gname] is not None:
        return dict(GLOBALS[gname])
    reg = lib.rd.GlobalDurationRegistryManager.read_config()._global_registry
    return {k.name: float(reg[k.value]) for k in lib.rd.GlobalRegistryKey}


@contextlib.contextmanager
def global_setting(gname):
    lib = L()
    if GLOBALS[gname] is None:
        yield
        return
    tab = {getattr(lib.rd.GlobalRegistryKey, k): v for k, v in GLOBALS[gname].items()}
    with lib.rd.temporary_override_get_registry_at(tab):
        yield


# ------------------------------------------------------------------------------------------------
# Building circuits from JSON programs (public API only)
# ------------------------------------------------------------------------------------------------
# program  = {"items": [item...], "reps": n (top-level repetition count, default 1), "G": name of the duration table}
# item     = {"k": kind, "q": [qubits], "rel": [index of an earlier item of the same level, "F"|"S"|"E"], "d": duration,
#             "ch": channel, "tag": acquisition tag, "reg": whose registry the measurement is created against:
#             "root" = outermost circuit, or n = the n-th enclosing circuit counted from the one it is added to (0 = own)}
#          | {"k": "sub", "reps": n, "items": [...], "rel": ..., "peek": bool}   (peek: `sub.operations` is read once before
#             the sub-circuit is added to its parent -- any reader of the sub-circuit, e.g. get_acquisition_indices, does that)
#          | library program {"lib": ..., ...}
def _make_op(lib, it, rel, acq):
    k, q = it["k"], it["q"]
    co, rd = lib.co, lib.rd
    kw = {}
    if rel is not None:
        kw["relation"] = rel
    if k in SQ_GLOBAL:
        return getattr(co, k)(q[0], **kw)
    if k in SQ_FIXED:
        kw["duration_strategy"] = rd.FixedDurationStrategy(duration=float(it.get("d", 0.0)))
        if k != "SingleQubitOperation":
            kw["qubit_channel"] = getattr(lib.QubitChannel, CH[it.get("ch", "ALL")])
        return getattr(co, k)(q[0], **kw)
    if k in ("CPhase", "TwoQubitVirtualPhase"):
        return getattr(co, k)(q[0], q[1], **kw)
    if k in ("TwoQubitOperation", "VirtualTwoQubitVacant"):
        kw["duration_strategy"] = rd.FixedDurationStrategy(duration=float(it.get("d", 0.0)))
        return getattr(co, k)(q[0], q[1], **kw)
    if k == "DispersiveMeasure":
        return co.DispersiveMeasure(q[0], acquisition_strategy=acq, acquisition_tag=it.get("tag", ""), **kw)
    if k == "Barrier":
        op = co.Barrier(list(q))
        if rel is not None:
            op.relation_link = rel
        return op
    raise ValueError(f"unknown kind {k}")


def _build_items(lib, chain, items):
    circ = chain[-1]
    added = []
    for it in items:
        rel = None
        if it.get("rel"):
            idx, t = it["rel"]
            rel = lib.RelationLink(added[idx], getattr(lib.RelationType, RELT[t]))
        if it["k"] == "sub":
            kw = {}
            if int(it.get("reps", 1)) != 1:
                kw["repetition_strategy"] = lib.FixedRepetitionStrategy(int(it["reps"]))
            if rel is not None:
                kw["relation"] = rel
            sub = lib.DeclarativeCircuit(**kw)
            _build_items(lib, chain + [sub], it["items"])
            if it.get("peek"):
                _ = sub.operations
            added.append(circ.add(sub))
        else:
            acq = None
            if it["k"] == "DispersiveMeasure":
                reg = it.get("reg", 0)
                owner = chain[0] if reg == "root" else chain[max(0, len(chain) - 1 - int(reg))]
                acq = owner.get_acquisition_strategy()
            added.append(circ.add(_make_op(lib, it, rel, acq)))
    return added


def _description(spec):
    from qce_circuit.library.repetition_code.circuit_components import RepetitionCodeDescription
    from qce_circuit.connectivity import QubitIDObj
    if spec is None:
        return None
    d = spec["distance"]
    refocus = bool(spec.get("refocus", True))
    if spec["kind"] == "chain":
        return RepetitionCodeDescription.from_chain(length=2 * d - 1, qubit_refocusing=refocus)
    if spec["kind"] == "s17":
        from qce_circuit.library.repetition_code.repetition_code_connectivity import Repetition9Code
        names = S17_CHAIN[2 * spec["start"]: 2 * spec["start"] + 2 * d - 1]
        if spec.get("reverse"):
            names = names[::-1]
        return RepetitionCodeDescription.from_connectivity(involved_qubit_ids=[QubitIDObj(n) for n in names],
                                                           connectivity=Repetition9Code(), qubit_refocusing=refocus)
    raise ValueError(spec["kind"])


def _state(bits):
    from qce_circuit.language import InitialStateContainer, InitialStateEnum
    if bits is None:
        return InitialStateContainer.empty()
    conv = {"0": InitialStateEnum.ZERO, "1": InitialStateEnum.ONE, "+": InitialStateEnum.PLUS, "-": InitialStateEnum.MINUS}
    return InitialStateContainer.from_ordered_list([conv[c] for c in bits])


def _build_library(program):
    from qce_circuit.library.repetition_code import circuit_constructors as cc
    kind = program["lib"]
    if kind in ("repcode", "repcode_simplified"):
        fn = cc.construct_repetition_code_circuit if kind == "repcode" else cc.construct_repetition_code_circuit_simplified
        kw = {"qec_cycles": int(program["cycles"]), "initial_state": _state(program.get("states"))}
        desc = _description(program.get("description"))
        if desc is not None:
            kw["description"] = desc
        return fn(**kw)
    if kind == "multi_round":
        return cc.construct_repetition_code_multi_round_circuit(qec_cycles=[int(r) for r in program["rounds"]],
                                                                description=_description(program["description"]),
                                                                initial_state=_state(program.get("states")))
    if kind == "calibration":
        from qce_circuit.library.state_calibration.circuit_components import CalibrationDescription, CalibrateType
        from qce_circuit.library.state_calibration.circuit_constructors import construct_calibration_circuit
        from qce_circuit.connectivity import QubitIDObj
        ids = [QubitIDObj(f"Q{i}") for i in range(len(program["indices"]))]
        return construct_calibration_circuit(CalibrationDescription(
            _qubit_ids=ids, _qubit_index_map={qid: int(program["indices"][i]) for i, qid in enumerate(ids)},
            _type=getattr(CalibrateType, program["type"])))
    raise ValueError(kind)


def build(program):
    """-> (circuit with modifiers applied, stage reached)"""
    lib = L()
    if "lib" in program:
        circ = _build_library(program)
        if program.get("nest"):
            # the finished library circuit is used as a sub-circuit of a fresh circuit (registry re-targeted once more)
            outer = lib.DeclarativeCircuit()
            if program["nest"] == "after-measure":
                outer.add(lib.co.DispersiveMeasure(0, acquisition_strategy=outer.get_acquisition_strategy(), acquisition_tag="pre"))
            outer.add(circ)
            circ = outer
    else:
        kw = {}
        if int(program.get("reps", 1)) != 1:
            kw["repetition_strategy"] = lib.FixedRepetitionStrategy(int(program["reps"]))
        circ = lib.DeclarativeCircuit(**kw)
        _build_items(lib, [circ], program["items"])
    return circ


# ------------------------------------------------------------------------------------------------
# Static features of a program
# ------------------------------------------------------------------------------------------------
def features(program):
    f = {"meas": 0, "meas_qubits": set(), "ops": 0, "rel": 0, "sub": 0, "rep": 0, "peek": 0, "depth": 0, "nested_meas": 0,
         "foreign_reg": 0, "qubits": set(), "tags": set()}
    if "lib" in program:
        f.update(meas=4, ops=10, sub=2, rep=1, depth=2, nested_meas=1, lib=True)
        f["meas_qubits"] = {0, 1}
        return f
    if int(program.get("reps", 1)) != 1:
        f["rep"] += 1

    def rec(items, depth):
        f["depth"] = max(f["depth"], depth)
        for it in items:
            if it.get("rel"):
                f["rel"] += 1
            if it["k"] == "sub":
                f["sub"] += 1
                if int(it.get("reps", 1)) != 1:
                    f["rep"] += 1
                if it.get("peek"):
                    f["peek"] += 1
                rec(it["items"], depth + 1)
            else:
                f["ops"] += 1
                f["qubits"].update(it["q"])
                if it["k"] == "DispersiveMeasure":
                    f["meas"] += 1
                    f["meas_qubits"].add(it["q"][0])
                    f["tags"].add(it.get("tag", ""))
                    if depth > 0:
                        f["nested_meas"] += 1
                        if it.get("reg", 0) != "root":
                            f["foreign_reg"] += 1
    rec(program["items"], 0)
    return f


def program_measurements(program):
    """multiset {(qubit, tag): count} of the measurements a build program asks for, repetitions unrolled (own count)"""
    out = {}

    def rec(items, mult):
        for it in items:
            if it["k"] == "sub":
                rec(it["items"], mult * int(it.get("reps", 1)))
            elif it["k"] == "DispersiveMeasure":
                key = (it["q"][0], it.get("tag", ""))
                out[key] = out.get(key, 0) + mult
    rec(program["items"], int(program.get("reps", 1)))
    return out


def nontrivial(program):
    """at least two measurements, and interleaved qubits or nesting or repetition"""
    f = features(program)
    if f.get("lib"):
        return True
    return f["meas"] >= 2 and (len(f["meas_qubits"]) >= 2 or f["nested_meas"] > 0 or f["rep"] > 0)


def program_hash(program):
    return hashlib.blake2b(json.dumps(program, sort_keys=True).encode(), digest_size=8).digest()


# ------------------------------------------------------------------------------------------------
# The oracle, part 1: own listing (pointer walk)
# ------------------------------------------------------------------------------------------------
def is_composite(op):
    return hasattr(op, "_circuit_graph")


def is_measure(op):
    return hasattr(op, "_acquisition_identifier")


def level_nodes(comp):
    """nodes of a composite level by level, left to right, by an own walk over the pointer fields"""
    graph = comp._circuit_graph
    root, end = graph._entrypoint_node, graph._endpoint_node
    out, seen = [], set()
    frontier = [n for n in root._outgoing_pointers if n is not end]
    depth1 = list(frontier)
    leaves = []
    while frontier:
        nxt = []
        for n in frontier:
            if id(n) in seen:
                continue
            seen.add(id(n))
            out.append(n)
            succ = [m for m in n._outgoing_pointers if m is not end]
            if not succ:
                leaves.append(n)
            nxt.extend(succ)
        frontier = nxt
    return depth1, leaves, out


def own_listing(comp, out=None):
    """the listing of a circuit whose modifiers are applied: level order, sub-circuits expanded in place"""
    out = [] if out is None else out
    for n in level_nodes(comp)[2]:
        if is_composite(n.operation):
            own_listing(n.operation, out)
        else:
            out.append(n.operation)
    return out


def own_composites(comp, out=None):
    out = [] if out is None else out
    for n in level_nodes(comp)[2]:
        if is_composite(n.operation):
            out.append(n.operation)
            own_composites(n.operation, out)
    return out


# ------------------------------------------------------------------------------------------------
# The oracle, part 2: own evaluation of the relation equations under an explicit duration table
# ------------------------------------------------------------------------------------------------
class Evaluator:
    def __init__(self, table):
        self.T = table
        self._s, self._d = {}, {}

    def dur(self, op):
        k = id(op)
        if k in self._d:
            return self._d[k]
        if is_composite(op):
            # a block lasts from the earliest start to the latest end over ALL operations it contains
            # (not only first-level starts / relation-leaf ends)
            allnodes = level_nodes(op)[2]
            if not allnodes:
                v = 0.0
            else:
                first = min(self.start(n.operation) for n in allnodes)
                v = max(0.0, max(self.end(n.operation) for n in allnodes) - first)
        else:
            s = op.duration_strategy
            n = type(s).__name__
            if n == "GlobalDurationStrategy":
                v = self.T[s.key.name]
            elif n == "FixedDurationStrategy":
                v = s.duration
            elif n == "RegistryDurationStrategy":
                v = s.registry._variable_durations.get(s.registry_key, s.registry._default_duration)
            elif n == "DynamicDurationStrategy":
                v = s.duration_call()
            elif n == "GlobalDecouplingWaitDurationStrategy":   # repetition-code library: half of (readout - microwave), floor 0
                v = max(0.0, 0.5 * (self.T["READOUT"] - self.T["MICROWAVE"]))
            else:
                raise TypeError(f"unknown duration strategy {n}")
        self._d[k] = v
        return v

    def _ref(self, link):
        if type(link).__name__ == "MultiRelationLink":
            refs = link._reference_nodes
            if not refs:
                return None
            latest = refs[0]
            for r in refs:
                if self.end(r) > self.end(latest):
                    latest = r
            return latest
        return link._reference_node

    def start(self, op):
        k = id(op)
        if k in self._s:
            return self._s[k]
        link = op.relation
        ref = self._ref(link)
        if ref is None:
            v = 0.0
        else:
            t = link._relation_type.name
            if t == "FOLLOWED_BY":
                v = self.end(ref)
            elif t == "JOINED_START":
                v = self.start(ref)
            elif t == "JOINED_END":
                v = self.end(ref) - self.dur(op)
            else:
                raise TypeError(t)
        self._s[k] = v
        return v

    def end(self, op):
        return self.start(op) + self.dur(op)


def channels_of(op):
    return [(ci.id, ci.channel.name) for ci in op.channel_identifiers]


def share_channel(ca, cb):
    for (qa, xa) in ca:
        for (qb, xb) in cb:
            if qa == qb and (xa == xb or xa == "ALL" or xb == "ALL"):
                return True
    return False


def overlaps(blocks):
    """pairs of blocks (start, end, channels) on a common channel whose open intervals intersect"""
    n = 0
    for i in range(len(blocks)):
        si, ei, ci = blocks[i]
        if ei - si <= EPS:
            continue
        for j in range(i + 1, len(blocks)):
            sj, ej, cj = blocks[j]
            if ej - sj <= EPS:
                continue
            if min(ei, ej) - max(si, sj) > EPS and share_channel(ci, cj):
                n += 1
    return n


# ------------------------------------------------------------------------------------------------
# Statistics
# ------------------------------------------------------------------------------------------------
CLAUSES = ["listing", "program", "circuit-index", "qubit-index", "record", "filter-qubit", "filter-tag", "partition", "no-default",
           "time-implicit", "time-library"]


class Stats:
    def __init__(self):
        self.n = {c: 0 for c in CLAUSES}
        self.cases = 0
        self.failures = {}
        self.skipped = {}
        self.hashes = set()
        self.samples = []
        self.probe = {"time_checked": 0, "time_mismatch": 0, "implicit": 0, "implicit_overlap_free": 0,
                      "implicit_leaf_only_overlap_free": 0, "leaf_only_order_violations": 0, "leaf_only_witness": None,
                      "retargeted_meas": 0, "max_meas": 0, "stim_programs": 0}

    def fail(self, key, clause, function, witness, observed, required):
        size = len(json.dumps(witness, default=str))
        old = self.failures.get(key)
        if old is None or size < old["_size"]:
            self.failures[key] = {"key": key, "clause": clause, "function": function, "witness": witness,
                                  "observed": observed, "required": required,
                                  "replay_args": {"program": witness["program"], "key": key}, "_size": size}

    def skip(self, reason):
        self.skipped[reason] = self.skipped.get(reason, 0) + 1

    def merge(self, o):
        for c in CLAUSES:
            self.n[c] += o.n[c]
        self.cases += o.cases
        for k, f in o.failures.items():
            old = self.failures.get(k)
            if old is None or (f["_size"], json.dumps(f["witness"], sort_keys=True, default=str)) < \
                    (old["_size"], json.dumps(old["witness"], sort_keys=True, default=str)):
                self.failures[k] = f
        for k, v in o.skipped.items():
            self.skipped[k] = self.skipped.get(k, 0) + v
        self.hashes |= o.hashes
        if len(self.samples) < 8:
            self.samples.extend(o.samples[:2])
        for k, v in o.probe.items():
            if k == "max_meas":
                self.probe[k] = max(self.probe[k], v)
            elif k == "leaf_only_witness":
                if v is not None and (self.probe[k] is None or len(json.dumps(v)) < len(json.dumps(self.probe[k]))):
                    self.probe[k] = v
            else:
                self.probe[k] += v


def _where(err):
    tb = traceback.extract_tb(err.__traceback__)
    for fr in reversed(tb):
        if "qce_circuit" in fr.filename:
            return fr.name
    return "harness"


# ------------------------------------------------------------------------------------------------
# One case = one program: build, apply modifiers, evaluate every clause
# ------------------------------------------------------------------------------------------------
def check_program(program, stats, verbose=False):
    lib = L()
    np = lib.np
    say = (lambda *a: print(*a)) if verbose else (lambda *a: None)
    feats = features(program)
    is_lib = bool(feats.get("lib"))
    witness = {"program": program}
    if is_lib:
        build_class = "(library-circuit-nested-unflattened)" if program.get("nest") else "(library-constructor)"
    else:
        build_class = "(sub-circuit-operations-read-before-nesting)" if feats["peek"] else "(plain-build)"

    def fail(key, clause, function, observed, required):
        say("  FAIL", key, "| observed:", observed, "| required:", required)
        stats.fail(f"{PROP}:{key}", clause, function, witness, observed, required)

    gname = program.get("G", "file")
    with global_setting(gname), quiet() if not verbose else contextlib.nullcontext():
        # ---- build through the public API ---------------------------------------------------------------------------------
        try:
            with quiet():
                circuit = build(program)
        except Exception as e:  # noqa
            stats.skip(f"program cannot be built: {type(e).__name__} in {_where(e)}")
            say("  cannot be built:", repr(e))
            return
        try:
            with quiet():
                circuit = circuit.apply_modifiers()
        except Exception as e:  # noqa
            fail(f"apply_modifiers:raises:{type(e).__name__}-in-{_where(e)}", "modifiers can be applied to every built circuit",
                 "DeclarativeCircuit.apply_modifiers", repr(e)[:300], "no exception")
            return
        stats.cases += 1
        root = circuit.circuit_structure

        # ---- oracle: own listing (pointer walk; before any library read of the modified circuit) ---------------------------
        own = own_listing(root)
        meas = [o for o in own if is_measure(o)]
        N = len(meas)
        stats.probe["max_meas"] = max(stats.probe["max_meas"], N)
        m_qubit = [m.qubit_index for m in meas]
        m_tag = [m.acquisition_tag for m in meas]
        exp_circuit = list(range(N))
        exp_qubit, seen_q = [], {}
        for q in m_qubit:
            exp_qubit.append(seen_q.get(q, 0))
            seen_q[q] = seen_q.get(q, 0) + 1
        qubits = sorted(set(m_qubit))
        say(f"  listing: {len(own)} operations, {N} measurements on qubits {m_qubit}, tags {m_tag}")

        got_c, got_q = [], []
        try:
            # ---- clause: the library lists the same measurements in the same order (anchor of 'listed') -------------------
            lib_ops = circuit.operations        # NOTE: hands sub-circuit relation links down (see module docstring)
            lib_meas = [o for o in lib_ops if isinstance(o, lib.IAcquisitionOperation)]
            stats.n["listing"] += 1
            if len(lib_meas) != N or any(a is not b for a, b in zip(lib_meas, meas)):
                fail("operations:listing:measurements-differ-from-pointer-walk",
                     "circuit.operations lists exactly the measurements found by a level-order walk of the graph, in that order",
                     "CircuitCompositeOperation.decomposed_operations",
                     [getattr(o, "qubit_index", None) for o in lib_meas], m_qubit)

            # ---- clause: 'all build programs ... with any tags ... repetitions unrolled': the listed measurements are the ones
            #      the program asks for (qubit and tag survive nesting and unrolling) ------------------------------------------
            if not is_lib:
                stats.n["program"] += 1
                want_ms = program_measurements(program)
                got_ms = {}
                for q, t in zip(m_qubit, m_tag):
                    got_ms[(q, t)] = got_ms.get((q, t), 0) + 1
                if got_ms != want_ms:
                    same_q = sorted(q for (q, _), c in got_ms.items() for _ in range(c)) == \
                        sorted(q for (q, _), c in want_ms.items() for _ in range(c))
                    cls = "tags-differ" if same_q else "measurements-differ"
                    fail(f"listing:program-measurements:{cls}",
                         "after nesting and unrolling the listing contains exactly the measurements of the build program (qubit, tag), "
                         "each as often as the enclosing repetition counts say",
                         "DispersiveMeasure.copy / CircuitCompositeOperation.repeat",
                         sorted([q, t, c] for (q, t), c in got_ms.items()), sorted([q, t, c] for (q, t), c in want_ms.items()))

            # ---- clause: no index is the default (-1); registry of every listed measurement is the listing circuit ---------
            for m in meas:
                got_c.append(m.circuit_level_acquisition_index)
                got_q.append(m.acquisition_index)
            say("  circuit-level indices:", got_c, " qubit-level indices:", got_q)
            targets_ok = []
            for m in meas:
                ref = m.acquisition_strategy.registry.reference_circuit
                targets_ok.append(ref is root)
            stats.n["no-default"] += N
            stats.probe["retargeted_meas"] += sum(1 for _ in meas) if (feats["foreign_reg"] or is_lib) else 0

            def cause(k):
                if got_c[k] == -1 or got_q[k] == -1:
                    base = "default-index(-1):registry-targets-other-circuit" if not targets_ok[k] else \
                        "default-index(-1):measurement-not-found-in-own-circuit"
                    return base + build_class
                kinds = []
                if len(qubits) >= 2:
                    kinds.append("interleaved-qubits")
                if feats["nested_meas"]:
                    kinds.append("nested")
                if feats["rep"]:
                    kinds.append("repeated")
                return "wrong-value:" + ("+".join(kinds) or "flat-single-qubit")

            # ---- clause: circuit-level indices are exactly 0..N-1 in listing order -----------------------------------------
            stats.n["circuit-index"] += N
            bad = [k for k in range(N) if got_c[k] != exp_circuit[k]]
            if bad:
                fail(f"circuit_level_acquisition_index:{cause(bad[0])}",
                     "the k-th listed measurement has circuit-level index k (indices are exactly 0..N-1 in listing order)",
                     "DispersiveMeasure.circuit_level_acquisition_index / AcquisitionRegistry.get_registry_at",
                     {"indices": got_c, "first_wrong_position": bad[0], "registry_targets_listing_circuit": targets_ok},
                     exp_circuit)
            # ---- clause: per-qubit indices are exactly 0..n_q-1 in listing order -------------------------------------------
            stats.n["qubit-index"] += N
            badq = [k for k in range(N) if got_q[k] != exp_qubit[k]]
            if badq:
                fail(f"acquisition_index:{cause(badq[0])}",
                     "the k-th listed measurement has per-qubit index = number of earlier listed measurements of the same qubit",
                     "DispersiveMeasure.acquisition_index / AcquisitionRegistry.get_registry_at",
                     {"qubits": m_qubit, "indices": got_q, "first_wrong_position": badq[0],
                      "registry_targets_listing_circuit": targets_ok}, exp_qubit)
            index_ok = not bad and not badq

            # ---- clause: position in the exported measurement record = circuit-level index ----------------------------------
            stats.n["record"] += 1
            try:
                with quiet():
                    sc = lib.to_stim(circuit)
                record = []
                for inst in sc.flattened():
                    if inst.name in MEASURE_NAMES:
                        record.extend(t.value for t in inst.targets_copy())
                stats.probe["stim_programs"] += 1
                if sc.num_measurements != len(record):
                    stats.skip("harness: stim num_measurements differs from counted measurement targets")
                if len(record) != N:
                    fail("measurement-record:count", "the exported program records exactly one result per listed measurement",
                         "to_stim / StimCircuitFactoryManager.construct", len(record), N)
                elif record != m_qubit:
                    fail("measurement-record:order",
                         "the k-th entry of the exported measurement record is the measurement with circuit-level index k (same qubit)",
                         "to_stim / StimCircuitFactoryManager.construct", record, m_qubit)
            except Exception as e:  # noqa
                fail(f"measurement-record:raises:{type(e).__name__}-in-{_where(e)}", "the circuit can be exported",
                     "to_stim", repr(e)[:300], "no exception")

            # ---- clause: filter by qubit ------------------------------------------------------------------------------------
            def as_list(arr):
                return [int(v) for v in np.asarray(arr).ravel().tolist()]

            by_qubit = {}
            for q in qubits + [ABSENT_QUBIT]:
                stats.n["filter-qubit"] += 1
                got = as_list(circuit.get_acquisition_indices(q))
                by_qubit[q] = got
                want = [exp_qubit[k] for k in range(N) if m_qubit[k] == q]
                if got != want:
                    reported = [got_q[k] for k in range(N) if m_qubit[k] == q]
                    if not index_ok and got == reported:
                        continue       # consequence of the index failure recorded above, the filter itself selected correctly
                    cls = "same-set-wrong-order" if sorted(got) == sorted(want) else "wrong-selection"
                    fail(f"get_acquisition_indices(qubit_index):{cls}",
                         "filtering by qubit returns precisely the per-qubit indices of the listed measurements of that qubit, in order",
                         "DeclarativeCircuit.get_acquisition_indices(qubit_index)", {"qubit": q, "returned": got,
                                                                                     "measurement_qubits": m_qubit}, want)
            # ---- clause: filter by (qubit, tag) ------------------------------------------------------------------------------
            tags = sorted(set(m_tag) | {ABSENT_TAG, ""})
            by_tag = {}
            for q in qubits + [ABSENT_QUBIT]:
                for t in tags:
                    stats.n["filter-tag"] += 1
                    got = as_list(circuit.get_acquisition_indices(lib.AcquisitionTag(qubit_index=q, tag=t)))
                    by_tag[(q, t)] = got
                    want = [exp_qubit[k] for k in range(N) if m_qubit[k] == q and m_tag[k] == t]
                    if got != want:
                        reported = [got_q[k] for k in range(N) if m_qubit[k] == q and m_tag[k] == t]
                        if not index_ok and got == reported:
                            continue
                        cls = "same-set-wrong-order" if sorted(got) == sorted(want) else "wrong-selection"
                        fail(f"get_acquisition_indices(tag):{cls}",
                             "filtering by (qubit, tag) returns precisely the per-qubit indices of the listed measurements with that qubit and tag",
                             "DeclarativeCircuit.get_acquisition_indices(tag)",
                             {"qubit": q, "tag": t, "returned": got, "measurement_qubits": m_qubit, "measurement_tags": m_tag}, want)
            # ---- clause: tags partition each qubit's indices -----------------------------------------------------------------
            for q in qubits:
                stats.n["partition"] += 1
                union = [i for t in tags for i in by_tag[(q, t)]]
                # (duplicates inside the result for the qubit itself are a consequence of an index failure recorded above)
                dup = len(set(union)) != len(union) and len(set(by_qubit[q])) == len(by_qubit[q])
                if sorted(union) != sorted(by_qubit[q]) or dup:
                    cls = "overlap" if dup else "not-exhaustive"
                    fail(f"get_acquisition_indices:tags-partition:{cls}",
                         "the index sets returned for the tags of a qubit are disjoint and their union is the set returned for the qubit",
                         "DeclarativeCircuit.get_acquisition_indices",
                         {"qubit": q, "by_tag": {t: by_tag[(q, t)] for t in tags}, "by_qubit": by_qubit[q]}, "partition")

            # ---- clause: per qubit, indices increase with measurement start time ---------------------------------------------
            implicit = (not is_lib) and feats["rel"] == 0
            if (implicit or is_lib) and N >= 1:
                T = table_of(gname)
                ev = Evaluator(T)
                starts = [ev.start(m) for m in meas]
                # probe: the library's fresh report agrees with the own evaluator
                common.clear_caches()
                stats.probe["time_checked"] += 1
                try:
                    if any(abs(m.start_time - s) > 1e-6 for m, s in zip(meas, starts)):
                        stats.probe["time_mismatch"] += 1
                        say("  probe: library start times", [m.start_time for m in meas], "own evaluator", starts)
                except Exception:  # noqa
                    stats.probe["time_mismatch"] += 1
                common.clear_caches()
                applies, leaf_only = True, False
                if implicit:
                    stats.probe["implicit"] += 1
                    leaf_blocks = [(ev.start(o), ev.end(o), channels_of(o)) for o in own]
                    comp_blocks = [(ev.start(c), ev.end(c), sorted({ch for o in own_listing(c) for ch in channels_of(o)}))
                                   for c in own_composites(root)]
                    n_leaf = overlaps(leaf_blocks)
                    # composite blocks against everything that is not inside them
                    n_comp = 0
                    comps = own_composites(root)
                    for ci, c in enumerate(comps):
                        inside = {id(o) for o in own_listing(c)}
                        inside_c = {id(x) for x in own_composites(c)}
                        others = [b for o, b in zip(own, leaf_blocks) if id(o) not in inside]
                        others += [b for x, b in zip(comps, comp_blocks) if x is not c and id(x) not in inside_c
                                   and id(c) not in {id(y) for y in own_composites(x)}]
                        cb = comp_blocks[ci]
                        for b in others:
                            if cb[1] - cb[0] > EPS and b[1] - b[0] > EPS and min(cb[1], b[1]) - max(cb[0], b[0]) > EPS \
                                    and share_channel(cb[2], b[2]):
                                n_comp += 1
                    applies = n_leaf == 0 and n_comp == 0
                    leaf_only = n_leaf == 0 and n_comp > 0
                    if applies:
                        stats.probe["implicit_overlap_free"] += 1
                    if leaf_only:
                        stats.probe["implicit_leaf_only_overlap_free"] += 1
                if applies or leaf_only:
                    viol = None
                    for q in qubits:
                        ks = [k for k in range(N) if m_qubit[k] == q]     # listing order = per-qubit index order (oracle)
                        if applies:
                            stats.n["time-library" if is_lib else "time-implicit"] += 1
                        for a, b in zip(ks, ks[1:]):
                            if not (starts[a] < starts[b] - EPS) and viol is None:
                                viol = {"qubit": q, "per_qubit_indices": [exp_qubit[a], exp_qubit[b]],
                                        "start_times": [starts[a], starts[b]], "durations": T}
                    if viol is not None and applies:
                        if is_lib:
                            fail(f"time-order:library:{program['lib']}",
                                 "per qubit, the acquisition indices increase with the measurement start time (library-built circuit)",
                                 "library constructor / AcquisitionRegistry.get_registry_at", viol, "strictly increasing start times")
                        else:
                            kinds = "unrolled-repetition" if feats["rep"] else ("with-sub-circuits" if feats["sub"] else "flat")
                            fail(f"time-order:implicit-overlap-free:{kinds}",
                                 "per qubit, the acquisition indices increase with the measurement start time (implicitly sequenced "
                                 "circuit, no two operations or sub-circuit blocks overlap on a channel)",
                                 "CircuitGraphBranch.add_to_graph / AcquisitionRegistry.get_registry_at", viol,
                                 "strictly increasing start times")
                    elif viol is not None and leaf_only:
                        stats.probe["leaf_only_order_violations"] += 1
                        if stats.probe["leaf_only_witness"] is None:
                            stats.probe["leaf_only_witness"] = {"program": program, "violation": viol}
        except Exception as e:  # noqa
            if isinstance(e, (KeyboardInterrupt, SystemExit)):
                raise
            if _where(e) == "harness":
                raise
            fail(f"raises:{type(e).__name__}-in-{_where(e)}", "every clause can be evaluated on a built circuit",
                 _where(e), repr(e)[:300], "no exception")

    if len(stats.samples) < 2 and N >= 2 and got_c == list(range(N)) and len(got_q) == N and nontrivial(program):
        stats.samples.append({"program": program, "checked": {
            "measurements_in_listing_order": [{"qubit": m_qubit[k], "tag": m_tag[k], "circuit_level_index": got_c[k],
                                               "qubit_level_index": got_q[k]} for k in range(min(N, 8))],
            "clauses": "listing, circuit-level 0..N-1, per-qubit 0..n_q-1, no -1, Stim record order, filters by qubit and by tag, "
                       "tag partition" + (", time order" if (feats.get("lib") or feats["rel"] == 0) else "")}})


# ------------------------------------------------------------------------------------------------
# Enumeration of inputs
# ------------------------------------------------------------------------------------------------
def op(k, q, rel=None, **kw):
    it = {"k": k, "q": list(q) if isinstance(q, (list, tuple)) else [q]}
    if rel is not None:
        it["rel"] = list(rel)
    it.update(kw)
    return it


def M(q, tag="", reg=0, rel=None):
    return op("DispersiveMeasure", q, rel, tag=tag, reg=reg)


def sub(items, reps=1, rel=None, peek=False):
    it = {"k": "sub", "reps": reps, "items": items}
    if rel is not None:
        it["rel"] = list(rel)
    if peek:
        it["peek"] = True
    return it


def clone(x):
    return json.loads(json.dumps(x))


def family_flat(lmax, lrep):
    """F1: every sequence of length <= lmax over 5 measurements (3 qubits, 3 tags) and one gate; top-level repetition 1,
    and 2..3 for length <= lrep"""
    sigma = [M(0, ""), M(0, "a"), M(1, ""), M(1, "a"), M(2, "b"), op("Rx180", 1)]
    progs = []
    for n in range(1, lmax + 1):
        for seq in itertools.product(range(len(sigma)), repeat=n):
            if all(sigma[i]["k"] != "DispersiveMeasure" for i in seq):
                continue
            items = [sigma[i] for i in seq]      # (items are shared between programs: the builder never mutates a program)
            progs.append({"items": items})
            if n <= lrep:
                for r in (2, 3):
                    progs.append({"items": items, "reps": r})
    return progs


LEAVES = [M(0, ""), M(1, "a"), op("Rx180", 0)]


def _forests(n, depth, maxdepth, reps_choices, memo):
    """all item sequences with exactly n nodes (leaf = 1 node, sub-circuit = 1 node + its content)"""
    key = (n, depth)
    if key in memo:
        return memo[key]
    out = []
    if n == 0:
        out.append([])
    else:
        # first item is a leaf
        for rest in _forests(n - 1, depth, maxdepth, reps_choices, memo):
            for lf in LEAVES:
                out.append([lf] + rest)
        # first item is a sub-circuit with k >= 1 nodes inside
        if depth < maxdepth:
            for k in range(1, n):
                for inner in _forests(k, depth + 1, maxdepth, reps_choices, memo):
                    for rest in _forests(n - 1 - k, depth, maxdepth, reps_choices, memo):
                        for r in reps_choices:
                            out.append([sub(inner, r)] + rest)
    memo[key] = out
    return out


def _apply_policy(items, policy, peek, depth=0, counter=None):
    counter = counter if counter is not None else [0]
    out = []
    for it in items:
        it = dict(it)
        if it["k"] == "sub":
            it["items"] = _apply_policy(it["items"], policy, peek, depth + 1, counter)
            if peek:
                it["peek"] = True
        elif it["k"] == "DispersiveMeasure":
            if policy == "root":
                it["reg"] = "root"
            elif policy == "own":
                it["reg"] = 0
            elif policy == "parent":
                it["reg"] = 1
            else:   # alternate own / root / parent
                it["reg"] = [0, "root", 1][counter[0] % 3]
                counter[0] += 1
        out.append(it)
    return out


def family_trees(nmax, maxdepth, reps_choices, nmin=1):
    """F2: every forest of nmin..nmax nodes, nesting depth <= maxdepth, x registry policy x read-before-nesting"""
    progs = []
    memo = {}
    for n in range(nmin, nmax + 1):
        for items in _forests(n, 0, maxdepth, reps_choices, memo):
            f = features({"items": items})
            if f["meas"] == 0:
                continue
            if f["nested_meas"] == 0:
                variants = [("root", False)]
                if f["sub"]:
                    variants.append(("root", True))
            else:
                variants = [(p, pk) for p in ("root", "own", "parent", "alt") for pk in (False, True)]
            for policy, peek in variants:
                its = _apply_policy(items, policy, peek)
                progs.append({"items": its})
                if n <= 4 and nmin == 1:
                    progs.append({"items": its, "reps": 2})      # the whole forest repeated at top level
    return progs


def family_relations():
    """F3: <= 3 top-level items over a reduced alphabet, every relation type to every earlier item"""
    gamma = [M(0, ""), M(1, "a"), op("Wait", 0, d=5.0, ch="ALL"), op("Wait", 0, d=0.0, ch="MW"), op("Rx180", 1),
             op("CPhase", [0, 1]), op("Barrier", [0, 1]), sub([M(0, "a", reg=0), M(1, "", reg="root")], 2)]
    progs = []

    def rels(i):
        return [None] + [[j, t] for j in range(i) for t in "FSE"]
    for n in (1, 2, 3):
        for seq in itertools.product(range(len(gamma)), repeat=n):
            nm = sum(1 for i in seq if gamma[i]["k"] in ("DispersiveMeasure", "sub"))
            if nm == 0:
                continue
            for rr in itertools.product(*[rels(i) for i in range(n)]):
                items = []
                for i, r in zip(seq, rr):
                    it = gamma[i]
                    if r:
                        it = dict(it, rel=r)
                    items.append(it)
                progs.append({"items": items})
    return progs


def family_implicit(lmax, gnames):
    """F4: implicitly sequenced programs (no relation anywhere) with operations of different lengths on different channels,
    at least two measurements of one qubit; judged by the time clause when free of channel overlaps"""
    delta = [M(0, ""), M(1, "a"), op("Wait", 0, d=5.0, ch="ALL"), op("Wait", 1, d=2.0, ch="FL"), op("Wait", 0, d=1.0, ch="MW"),
             op("Wait", 1, d=0.0, ch="ALL"), op("Rx180", 0), op("CPhase", [0, 1]), op("Barrier", [0, 1]),
             sub([op("Wait", 1, d=5.0, ch="ALL"), M(0, "b")], 1), sub([M(1, ""), op("Rx180", 1)], 2)]
    progs = []
    for n in range(2, lmax + 1):
        for seq in itertools.product(range(len(delta)), repeat=n):
            cnt = {0: 0, 1: 0}
            for i in seq:
                it = delta[i]
                if it["k"] == "DispersiveMeasure":
                    cnt[it["q"][0]] += 1
                elif it["k"] == "sub":
                    for x in it["items"]:
                        if x["k"] == "DispersiveMeasure":
                            cnt[x["q"][0]] += it["reps"]
            if max(cnt.values()) < 2:
                continue
            for g in gnames:
                p = {"items": [delta[i] for i in seq]}
                if g != "file":
                    p["G"] = g
                progs.append(p)
    # the same alphabet inside a repeated block: top-level repetition, a repeated sub-circuit alone / followed by a measurement
    for n in range(1, min(lmax, 3) + 1):
        for seq in itertools.product(range(len(delta)), repeat=n):
            if not any(delta[i]["k"] == "DispersiveMeasure" or delta[i]["k"] == "sub" for i in seq):
                continue
            items = [delta[i] for i in seq]
            for g in gnames[:2]:
                extra = {} if g == "file" else {"G": g}
                for r in (2, 3):
                    progs.append(dict({"items": items, "reps": r}, **extra))
                progs.append(dict({"items": [sub(items, 2)]}, **extra))
                progs.append(dict({"items": [sub(items, 2), delta[0]]}, **extra))
                progs.append(dict({"items": [delta[2], sub(items, 3), delta[1]]}, **extra))
    return progs


def kind_instances(k, q1, q2, qall):
    if k in SQ_GLOBAL:
        return [op(k, q1)]
    if k == "DispersiveMeasure":
        return [M(q1, t) for t in TAGS]
    if k in SQ_FIXED:
        out = [op(k, q1, d=2.0), op(k, q1, d=0.0)]
        if k != "SingleQubitOperation":
            out += [op(k, q1, d=0.5, ch="MW"), op(k, q1, d=5.0, ch="FL"), op(k, q1, d=1.0, ch="RO")]
        return out
    if k in ("CPhase", "TwoQubitVirtualPhase"):
        return [op(k, [q1, q2]), op(k, [q2, q1])]
    if k in ("TwoQubitOperation", "VirtualTwoQubitVacant"):
        return [op(k, [q1, q2], d=2.0), op(k, [q2, q1], d=0.0)]
    if k == "Barrier":
        return [op(k, qall), op(k, [q1])]
    raise ValueError(k)


def unrolled_size(program):
    def rec(items):
        n = 0
        for it in items:
            n += int(it.get("reps", 1)) * rec(it["items"]) if it["k"] == "sub" else 1
        return n
    return int(program.get("reps", 1)) * rec(program["items"])


def random_program(rng, limit=90):
    while True:
        p = _random_program(rng)
        if unrolled_size(p) <= limit:
            return p


def _random_program(rng):
    pool = rng.choice([[0, 1], [5, 0, 3], [2, 7], [1, 4, 0]])
    p_rel = rng.choice([0.0, 0.0, 0.35, 0.5])
    p_meas = rng.choice([0.3, 0.5, 0.7])
    p_peek = rng.choice([0.0, 0.0, 0.0, 0.5])
    maxdepth = rng.choice([1, 2, 3, 3])

    def items(depth, n):
        out = []
        for _ in range(n):
            rel = None
            if out and rng.random() < p_rel:
                rel = [rng.randrange(len(out)), rng.choice("FSE")]
            if depth < maxdepth and rng.random() < 0.25:
                out.append(sub(items(depth + 1, rng.randint(1, 3)), rng.choice([1, 2, 2, 3]), rel, rng.random() < p_peek))
                continue
            k = "DispersiveMeasure" if rng.random() < p_meas else rng.choice(ALL_KINDS)
            q1 = rng.choice(pool)
            q2 = rng.choice([q for q in pool if q != q1])
            inst = clone(rng.choice(kind_instances(k, q1, q2, rng.sample(pool, rng.randint(1, len(pool))))))
            if k == "DispersiveMeasure":
                inst["reg"] = rng.choice(["root", 0, 0, 1, 2])
            if rel:
                inst["rel"] = rel
            out.append(inst)
        return out
    p = {"items": items(0, rng.randint(2, 6))}
    r = rng.choice([1, 1, 1, 2, 3])
    if r != 1:
        p["reps"] = r
    g = rng.choice(["file", "file", "A", "B"])
    if g != "file":
        p["G"] = g
    return p


def family_library(thorough):
    progs = []
    states = ["00", "01", "010", "101"] + (["0110", "10101"] if thorough else [])
    for s in states:
        for c in range(0, (7 if thorough else 4)):
            if len(s) >= 4 and c > 3:
                continue
            for kind in ("repcode", "repcode_simplified"):
                if kind == "repcode_simplified" and c == 0:
                    continue      # zero repetitions of the cycle block: not a measurement-bearing input of this property
                for g in (["file", "A", "B"] if thorough else ["file", "A"]):
                    p = {"lib": kind, "states": s, "cycles": c}
                    if g != "file":
                        p["G"] = g
                    progs.append(p)
                    if g == "file" and c <= 2:
                        progs.append(dict(p, nest="plain"))
                        progs.append(dict(p, nest="after-measure"))
    descs = [{"kind": "s17", "distance": 2, "start": 0}, {"kind": "s17", "distance": 3, "start": 2},
             {"kind": "chain", "distance": 2}, {"kind": "chain", "distance": 3, "refocus": False}]
    if thorough:
        descs += [{"kind": "s17", "distance": d, "start": s, "reverse": rv} for d in (2, 3, 4) for s in (0, 1, 3, 5) for rv in (False, True)
                  if 2 * s + 2 * d - 1 <= len(S17_CHAIN)]
    rounds_lists = [[0], [1], [2], [1, 2], [2, 0, 1], [3, 1]] + ([[4, 2, 3], [0, 0], [1, 1], [5]] if thorough else [])
    for d in descs:
        for rl in rounds_lists:
            if not thorough and d["distance"] == 3 and len(rl) > 2:
                continue
            progs.append({"lib": "multi_round", "description": d, "rounds": rl})
            if len(rl) <= 2 and d["distance"] == 2:
                progs.append({"lib": "multi_round", "description": d, "rounds": rl, "nest": "after-measure"})
                progs.append({"lib": "multi_round", "description": d, "rounds": rl, "G": "A"})
        for c in (1, 2):
            progs.append({"lib": "repcode", "description": d, "cycles": c, "states": None})
    for t in ("QUBIT", "QUTRIT"):
        for idx in ([0], [3, 1], [2, 0, 5]):
            progs.append({"lib": "calibration", "type": t, "indices": idx})
            progs.append({"lib": "calibration", "type": t, "indices": idx, "nest": "after-measure"})
            progs.append({"lib": "calibration", "type": t, "indices": idx, "G": "B"})
    return progs


def family_edge():
    return [
        {"items": []},
        {"items": [op("Rx180", 0)]},
        {"items": [sub([], 1), M(0)]},
        {"items": [sub([sub([sub([M(1, "a", reg=2)], 2)], 2)], 2), M(1, "a")]},
        {"items": [sub([sub([sub([M(1, "a", reg=0), M(0, "", reg="root")], 3)], 2, peek=True)], 2), M(1, "b")], "reps": 2},
        {"items": [M(0), sub([M(0, "a", reg=0)], 3, rel=[0, "S"]), M(0, "b", rel=[0, "E"])]},
        {"items": [op("Wait", 0, d=5.0), M(0, rel=[0, "E"]), M(0, "a", rel=[0, "S"]), M(1, rel=[1, "F"])]},
        {"items": [sub([M(0, reg=0)], 1, peek=True), sub([M(0, reg=0)], 1, peek=True)]},
        {"items": [sub([sub([M(1, reg=1)], 1), M(0, reg=0)], 1, peek=True)]},
        {"items": [sub([sub([M(1, reg=1)], 1), M(0, reg=0)], 1)]},
    ]


def make_jobs(tier, seed):
    thorough = tier == "thorough"
    rng = random.Random(seed * 7919 + (1 if thorough else 0))
    if thorough:
        trees = family_trees(5, 3, (1, 2, 3)) + family_trees(6, 3, (1, 2), nmin=6)
        trees_txt = "<= 5 nodes with sub-circuit repetitions 1..3, 6 nodes with repetitions 1..2"
    else:
        trees = family_trees(5, 3, (1, 2))
        trees_txt = "<= 5 nodes with sub-circuit repetitions 1..2"
    fams = [
        ("F1 flat interleaved (exhaustive: length <= %d over 6 symbols = 5 measurements on 3 qubits with 3 tags + 1 gate, top repetition 1; 2..3 for length <= %d)"
         % ((6, 4) if thorough else (4, 3)), family_flat(6 if thorough else 4, 4 if thorough else 3)),
        ("F2 nested forests (exhaustive: %s, nesting depth <= 3, leaves M(q0)/M(q1,'a')/Rx180, x registry policy root/own/parent/alternating "
         "x read-before-nesting off/on; forests of <= 4 nodes also with top-level repetition 2)" % trees_txt, trees),
        ("F3 explicit relations (exhaustive: <= 3 items over 8 symbols incl. a repeated sub-circuit, none/FOLLOWED_BY/JOINED_START/JOINED_END to every earlier item)",
         family_relations()),
        ("F4 implicit sequencing (exhaustive: length <= %d over 11 symbols (waits 0/1/2/5 on ALL/MICROWAVE/FLUX, gates, barrier, sub-circuits) with >= 2 "
         "measurements of one qubit, duration tables %s; plus every sequence of length <= 3 as a block repeated 2..3 times at top level or as a sub-circuit)" % ((5, "file/A/B") if thorough else (4, "file/A")),
         family_implicit(5 if thorough else 4, ["file", "A", "B"] if thorough else ["file", "A"])),
        ("F5 random (seeded: 2..6 items per level over all %d operation kinds, depth <= 3, repetitions 1..3, relations, tags, registries, "
         "read-before-nesting, duration tables; <= 90 unrolled operations)" % len(ALL_KINDS),
         [random_program(rng) for _ in range(30000 if thorough else 2000)]),
        ("F6 library constructors (repetition code full / simplified, multi-round, calibration; also nested once more into a fresh circuit)",
         family_library(thorough)),
        ("F7 edge", family_edge()),
    ]
    jobs, summary, sizes = [], [], {}
    for name, progs in fams:
        summary.append(f"{name}: {len(progs)} programs")
        short = name.split(" ")[0]
        sizes[short] = len(progs)
        order = list(range(len(progs)))
        random.Random(seed * 31 + len(progs)).shuffle(order)
        scale = 0.3 if short in ("F6", "F7") else 1.0     # the small, slow families first
        for rank, i in enumerate(order):
            jobs.append(((rank + 0.5) / len(progs) * scale, short, progs[i]))
    # proportional interleaving of the (shuffled) families, so that a run cut short by the time budget still covers all of them
    jobs.sort(key=lambda j: (j[0], j[1]))
    return [(f, p) for _, f, p in jobs], summary, sizes


# ------------------------------------------------------------------------------------------------
# Jobs
# ------------------------------------------------------------------------------------------------
_DEADLINE = [None]
_JOBS = []       # filled in the parent before the pool forks; workers receive index ranges only


def run_chunk(rng_):
    stats = Stats()
    L()
    done = {}
    for i in range(rng_[0], rng_[1]):
        fam, program = _JOBS[i]
        if _DEADLINE[0] is not None and time.time() > _DEADLINE[0]:
            stats.skip(f"time budget of the tier exhausted ({fam})")
            continue
        try:
            check_program(program, stats)
            done[fam] = done.get(fam, 0) + 1
            if nontrivial(program):
                stats.hashes.add(program_hash(program))
        except Exception as e:  # harness problem: make it visible
            stats.skip("harness error: " + "".join(traceback.format_exception_only(type(e), e)).strip()[:300] +
                       " @ " + traceback.format_tb(e.__traceback__)[-1].strip()[:200])
    return stats, done


def _init_worker(deadline):
    _DEADLINE[0] = deadline
    L()


def main(argv=None):
    args = common.parse_args(argv)
    if args.replay:
        return replay(args.replay)
    res = common.Result(PROP)
    L()
    jobs, summary, sizes = make_jobs(args.tier, args.seed)
    _JOBS[:] = jobs
    budget = 540.0 if args.tier == "thorough" else 52.0
    if os.environ.get("C07_BUDGET"):          # (for experiments on a loaded machine)
        budget = float(os.environ["C07_BUDGET"])
    deadline = res.t0 + budget
    total = Stats()
    done = {}
    nproc = min(16, os.cpu_count() or 1)
    chunk = 50
    chunks = [(i, min(i + chunk, len(jobs))) for i in range(0, len(jobs), chunk)]
    ctx = mp.get_context("fork")
    with ctx.Pool(nproc, initializer=_init_worker, initargs=(deadline,)) as pool:
        for st, dn in pool.imap_unordered(run_chunk, chunks, chunksize=4):
            total.merge(st)
            for k, v in dn.items():
                done[k] = done.get(k, 0) + v

    n = total.n
    res.evaluations = sum(n.values())
    res.distinct = total.hashes
    complete = all(done.get(k, 0) == sizes[k] for k in sizes)
    res.exhaustive = False     # the exhaustive families are complete (see rule) but the space of the property is unbounded
    res.rule = ("JSON build programs executed through the public API (DeclarativeCircuit.add of operations / sub-circuits, measurements created "
                "against the registry of the outermost circuit, of the circuit they are added to, or of an enclosing sub-circuit that is nested "
                "later; optional read of sub.operations before nesting), then apply_modifiers; all clauses evaluated on the result. Families: "
                + "; ".join(summary) + ". Evaluated per family: " + ", ".join(f"{k} {done.get(k, 0)}/{sizes[k]}" for k in sorted(sizes)) +
                (". Every family was enumerated completely." if complete else ". The time budget cut the enumeration short (see skipped).") +
                " Non-trivial = at least two measurements and (two or more measured qubits, or a measurement inside a sub-circuit, or a "
                "repetition count != 1); distinct = distinct programs. Largest number of measurements in one listing: "
                f"{total.probe['max_meas']}.")
    res.samples = total.samples[:6]
    bound = f"{total.cases} circuits, tier {args.tier}, seed {args.seed}"
    res.stand_ins = [
        {"function": "CircuitCompositeOperation.decomposed_operations (circuit.operations)",
         "contract": "clause 'in the order the measurements are listed': the measurements of circuit.operations are, object for object, those of an own level-order walk over the graph pointer fields with sub-circuits expanded in place",
         "bound": bound, "evaluations": n["listing"]},
        {"function": "DispersiveMeasure.copy / CircuitCompositeOperation.repeat / add_sub_circuit",
         "contract": "quantifier 'measurements on any qubits with any tags, nested, repetitions unrolled': the multiset of (qubit, tag) of the listed measurements equals the one the build program asks for with repetition counts multiplied out (own count)",
         "bound": bound + " (build programs only)", "evaluations": n["program"]},
        {"function": "DispersiveMeasure.circuit_level_acquisition_index / AcquisitionRegistry.get_registry_at",
         "contract": "clause 'circuit-level indices are exactly 0..N-1 in listing order': k-th listed measurement reports k",
         "bound": bound + " (per measurement)", "evaluations": n["circuit-index"]},
        {"function": "DispersiveMeasure.acquisition_index / AcquisitionRegistry.get_registry_at",
         "contract": "clause 'per-qubit indices exactly 0..n_q-1 in listing order': k-th listed measurement reports the number of earlier listed measurements of its qubit",
         "bound": bound + " (per measurement)", "evaluations": n["qubit-index"]},
        {"function": "RegistryAcquisitionStrategy.copy / DeclarativeCircuit.add_sub_circuit / DispersiveMeasure.copy",
         "contract": "clause 'every measurement has an index' (no -1 after nesting at depth <= 3 and unrolling): both indices != -1; on failure the witness says whether the measurement's registry targets the listing circuit",
         "bound": bound + " (per measurement)", "evaluations": n["no-default"]},
        {"function": "to_stim (StimCircuitFactoryManager.construct)",
         "contract": "clause 'position in the exported measurement record': measurement targets of the flattened Stim program (Stim's own API), in order, are the qubits of the listed measurements in order; their number is N",
         "bound": bound, "evaluations": n["record"]},
        {"function": "DeclarativeCircuit.get_acquisition_indices(qubit_index)",
         "contract": "clause 'filtering by qubit': result == per-qubit oracle indices of the listed measurements of that qubit, for every measured qubit and one absent qubit",
         "bound": bound + " (per qubit)", "evaluations": n["filter-qubit"]},
        {"function": "DeclarativeCircuit.get_acquisition_indices(tag) / AcquisitionTag.equal_tag",
         "contract": "clause 'filtering by (qubit, tag)': result == per-qubit oracle indices of the listed measurements with that qubit and tag, for every measured and one absent qubit x every tag in use, the empty tag and one absent tag",
         "bound": bound + " (per qubit x tag)", "evaluations": n["filter-tag"]},
        {"function": "DeclarativeCircuit.get_acquisition_indices",
         "contract": "clause 'tags partition each qubit's indices': results per tag are disjoint and their union is the result for the qubit",
         "bound": bound + " (per qubit)", "evaluations": n["partition"]},
        {"function": "CircuitGraphBranch.add_to_graph + AcquisitionRegistry.get_registry_at",
         "contract": "clause 'indices increase with start time for implicitly sequenced circuits free of channel overlaps': programs without any explicit relation in which no two operations and no sub-circuit block and outside operation overlap on a channel (own evaluator of the relation equations, explicit duration table); consecutive per-qubit indices have strictly increasing start times",
         "bound": bound + f" (per qubit; {total.probe['implicit_overlap_free']} of {total.probe['implicit']} implicit circuits are overlap free)",
         "evaluations": n["time-implicit"]},
        {"function": "library constructors (construct_repetition_code_circuit[_simplified], construct_repetition_code_multi_round_circuit, construct_calibration_circuit)",
         "contract": "clause 'indices increase with start time for library-built circuits' (and all other clauses on the same circuits), duration tables file/A/B",
         "bound": bound + " (per qubit)", "evaluations": n["time-library"]},
    ]
    pr = total.probe
    res.probes = [
        {"assumption": f"the library's start times read with fresh memos equal the own evaluator on the measurements of {pr['time_checked']} circuits ({pr['time_mismatch']} mismatches)",
         "ok": pr["time_mismatch"] == 0},
        {"assumption": f"the exported programs were read with Stim's own API ({pr['stim_programs']} programs)", "ok": pr["stim_programs"] > 0},
        {"assumption": "reading of 'free of channel overlaps': sub-circuit blocks count as occupying their channels for their whole duration. Under the weaker "
                       f"reading (only leaf operations must not overlap) {pr['implicit_leaf_only_overlap_free']} further implicit circuits qualify and "
                       f"{pr['leaf_only_order_violations']} of them have per-qubit indices that do not increase with start time (not counted as failures); "
                       f"first witness: {json.dumps(pr['leaf_only_witness'])[:600] if pr['leaf_only_witness'] else None}", "ok": True},
        {"assumption": f"measurements created against a registry other than the outermost circuit's, or by a library constructor, were evaluated ({pr['retargeted_meas']} measurements)",
         "ok": pr["retargeted_meas"] > 0},
    ]
    for f in total.failures.values():
        f.pop("_size", None)
    res.failures = total.failures
    res.skipped = total.skipped
    out = res.write(args.out)
    print(f"{PROP} bounded: {out['evaluations']} evaluations, {total.cases} circuits, {out['distinct_nontrivial']} distinct non-trivial, "
          f"{len(out['failures'])} failure keys, skipped {out['skipped']}, {out['wall_s']} s")
    for f in out["failures"]:
        print("  FAILURE", f["key"])
    harness = [k for k in out["skipped"] if k.startswith("harness")]
    if harness or total.cases == 0:
        print("HARNESS ERROR:", harness or "no case was evaluated")
        return 2
    return 0


def replay(path):
    rec, a = common.load_replay(path)
    key = a.get("key") or rec.get("key") or rec.get("id") or rec.get("obligation")
    program = a["program"]
    print(f"replaying {key}")
    print(" program:", json.dumps(program))
    stats = Stats()
    L()
    check_program(program, stats, verbose=True)
    keys = sorted(stats.failures)
    print(" failure keys now:", keys)
    if key in stats.failures or (key is None and keys):
        f = stats.failures[key if key in stats.failures else keys[0]]
        print(" observed:", json.dumps(f["observed"], default=str))
        print(" required:", json.dumps(f["required"], default=str))
        print(f"VIOLATION property={PROP} replay={path}")
        return 1
    print(" the recorded failure does not reproduce")
    return 0


if __name__ == "__main__":
    sys.exit(main())
